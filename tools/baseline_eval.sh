#!/bin/bash
# usage: tools/baseline_eval.sh <Cxx> : run a hunting sub-agent's baseline_<n>.py scripts (claimed violations on the UNMODIFIED library)
# against /repo's current tree; prints exit code and last line of each.  Nothing is written to /repo.
P=$1; SD=${2:-/verif/seeded/$P-w4}
mkdir -p /tmp/seed-$P  # (some scripts create their scratch directories there)
for f in $SD/baseline_*.py; do
  [ -f "$f" ] || continue
  sed "s#/tmp/wt-$P/src#/repo/src#g" $f > /dev/shm/bl-$P-$(basename $f)
  out=$(cd /tmp && timeout 120 /venv/bin/python /dev/shm/bl-$P-$(basename $f) 2>&1 | tail -2 | tr '\n' ' ' | cut -c1-260)
  rc=${PIPESTATUS[0]}
  ( cd /tmp && timeout 120 /venv/bin/python /dev/shm/bl-$P-$(basename $f) > /dev/null 2>&1 ); rc=$?
  echo "$(basename $f) rc=$rc :: $out"
  rm -f /dev/shm/bl-$P-$(basename $f)
done
rm -rf /tmp/seed-$P
