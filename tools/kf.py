#!/venv/bin/python
"""Maintain /verif/known_findings.json by hand (never called by a check).
usage: kf.py open  Cxx '<key>' '<summary>' ['<example json>']
       kf.py fixed Cxx '<key>' <commit> '<what failed>'
"""
import json, sys, os
P = os.path.join(os.path.dirname(os.path.dirname(os.path.abspath(__file__))), "known_findings.json")
data = json.load(open(P)) if os.path.exists(P) else {"findings": []}
cmd, prop, key = sys.argv[1:4]
data["findings"] = [e for e in data["findings"] if not (e["property"] == prop and e["key"] == key)]
if cmd == "open":
    e = {"property": prop, "key": key, "status": "open", "summary": sys.argv[4]}
    if len(sys.argv) > 5:
        e["example"] = json.loads(sys.argv[5])
elif cmd == "fixed":
    e = {"property": prop, "key": key, "status": "fixed", "commit": sys.argv[4], "summary": sys.argv[5],
         "line": f"fixed: property={prop} {sys.argv[4]} {sys.argv[5]}"}
elif cmd == "drop":
    e = None
if e:
    data["findings"].append(e)
data["findings"].sort(key=lambda e: (e["property"], e["status"], e["key"]))
json.dump(data, open(P, "w"), indent=1, sort_keys=True)
