#!/bin/bash
# usage: tools/seed_eval.sh <Cxx> [seed-id] : confirm a sub-agent's change in its scratch worktree /tmp/wt-<id>, run our check on a scratch copy, file it under seeded/
P=$1; ID=${2:-$1}; WT=/tmp/wt-$ID; SD=/tmp/seed-$ID  # second argument: worktree id when it differs from the property
[ -f $SD/demo.py ] || { echo "no demo"; exit 2; }
git -C $WT diff > /dev/shm/seed-$ID.diff
[ -s /dev/shm/seed-$ID.diff ] || { echo "empty patch"; exit 2; }
echo "--- patch: $(grep -c '^[+-][^+-]' /dev/shm/seed-$ID.diff) changed lines in $(grep -c '^diff' /dev/shm/seed-$ID.diff) file(s)"
( cd $WT && PYTHONPATH=$WT/src timeout 600 /venv/bin/python -m pytest -q -p no:cacheprovider -o addopts="" -n 8 2>&1 | tail -1 ) > /dev/shm/seed-$ID.tests; cat /dev/shm/seed-$ID.tests
( cd /tmp && timeout 120 /venv/bin/python $SD/demo.py > /dev/shm/seed-$ID.demo1 2>&1 ); RC1=$?
# (not `git stash`: the stash is shared by all worktrees of a repository)
git -C $WT apply -R /dev/shm/seed-$ID.diff
( cd /tmp && timeout 120 /venv/bin/python $SD/demo.py > /dev/shm/seed-$ID.demo0 2>&1 ); RC0=$?
git -C $WT apply /dev/shm/seed-$ID.diff
echo "--- demo with change rc=$RC1 ; without rc=$RC0"
RES=$(cd /verif && TAILN=40 tools/mutant.sh /dev/shm/seed-$ID.diff $P quick 2>&1 | grep -v "^error:\|^KNOWN")
echo "$RES" | grep -A1 "^VIOLATION" | grep key | head -4 | cut -c1-260
echo "$RES" | tail -2
