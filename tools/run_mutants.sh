#!/bin/bash
# Runs every mutant in /verif/mutants against its property's quick check (scratch copies of /repo only) and writes mutants/RESULTS.md
# usage: tools/run_mutants.sh            -> all mutants, RESULTS.md rewritten
#        tools/run_mutants.sh <name>...  -> only these (basename without .diff): their rows are replaced / appended in RESULTS.md
cd /verif
OUT=mutants/RESULTS.md
row() {
  f=$1; m=$(basename $f .diff); p=${m%%-*}
  res=$(TAILN=2 tools/mutant.sh $f $p quick 2>&1 | grep -v "^error:")
  rc=$(echo "$res" | grep -o "mutant rc=[0-9]*" | cut -d= -f2)
  new=$(echo "$res" | grep -o "new=[0-9]*" | head -1 | cut -d= -f2)
  if echo "$res" | grep -q PATCH-FAILED; then det="patch no longer applies"; elif [ "$rc" = "1" ]; then det="yes"; else det="NO"; fi
  echo "| $m | $p | $det | ${new:-?} |"
}
if [ $# -gt 0 ]; then
  for m in "$@"; do
    r=$(row mutants/$m.diff)
    grep -v "^| $m |" $OUT > $OUT.tmp
    # keep the table sorted: insert before the trailing blank line + note
    { grep "^| C\|^|---\|^| mutant\|^# " $OUT.tmp | grep -v "^| C"; { grep "^| C" $OUT.tmp; echo "$r"; } | sort; echo ""; grep -v "^|\|^#\|^$" $OUT.tmp; } > $OUT
    rm -f $OUT.tmp
  done
  exit 0
fi
echo "# Mutation self-test (quick tier): every patch in this directory applied to a scratch copy of /repo" > $OUT
echo "" >> $OUT
echo "| mutant | property | detected | new violation keys |" >> $OUT
echo "|---|---|---|---|" >> $OUT
for f in mutants/*.diff; do
  row $f >> $OUT
done
echo "" >> $OUT
echo "Mutants named *-unfix-* are the reverse of a 'fix:' commit in /repo (the defect the check originally found)." >> $OUT
