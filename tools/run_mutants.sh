#!/bin/bash
# Runs every mutant in /verif/mutants against its property's quick check (scratch copies of /repo only) and writes mutants/RESULTS.md
cd /verif
OUT=mutants/RESULTS.md
echo "# Mutation self-test (quick tier): every patch in this directory applied to a scratch copy of /repo" > $OUT
echo "" >> $OUT
echo "| mutant | property | detected | new violation keys |" >> $OUT
echo "|---|---|---|---|" >> $OUT
for f in mutants/*.diff; do
  m=$(basename $f .diff); p=${m%%-*}
  res=$(TAILN=2 tools/mutant.sh $f $p quick 2>&1 | grep -v "^error:")
  rc=$(echo "$res" | grep -o "mutant rc=[0-9]*" | cut -d= -f2)
  new=$(echo "$res" | grep -o "new=[0-9]*" | head -1 | cut -d= -f2)
  if echo "$res" | grep -q PATCH-FAILED; then det="patch no longer applies"; elif [ "$rc" = "1" ]; then det="yes"; else det="NO"; fi
  echo "| $m | $p | $det | ${new:-?} |" >> $OUT
done
echo "" >> $OUT
echo "Mutants named *-unfix-* are the reverse of a 'fix:' commit in /repo (the defect the check originally found)." >> $OUT
