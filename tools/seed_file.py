#!/venv/bin/python
"""File the confirmed changes of a sub-agent wave under seeded/: tools/seed_file.py <wave> <base-commit> '<origin text>' <Cxx/A> ... (the listed ones were reported at first contact).
Reads /tmp/seed<wave>-Cxx/{A,B}.diff, demo_{A,B}.py, notes.md (+ halves / baseline scripts). meta.json's detected_now/reported_keys are filled by tools/seed_now.py."""
import json, os, shutil, sys, glob, re
wave, base, origin = sys.argv[1:4]
first = set(sys.argv[4:])
root = os.path.join(os.path.dirname(os.path.dirname(os.path.abspath(__file__))), "seeded")
for i in range(1, 21):
    p = f"C{i:02d}"
    sd = f"/tmp/seed{wave}-{p}"
    for x in "AB":
        if not os.path.exists(f"{sd}/{x}.diff"):
            print("missing", p, x); continue
        d = os.path.join(root, f"{p}-w{wave}{x.lower()}")
        os.makedirs(d, exist_ok=True)
        shutil.copy(f"{sd}/{x}.diff", f"{d}/patch.diff")
        shutil.copy(f"{sd}/demo_{x}.py", f"{d}/demo.py")
        if os.path.exists(f"{sd}/notes.md"):
            shutil.copy(f"{sd}/notes.md", f"{d}/notes.md")
        for extra in glob.glob(f"{sd}/{x}_half*.diff") + (glob.glob(f"{sd}/baseline_*.py") if x == "A" else []):
            shutil.copy(extra, d)
        files = re.findall(r"^\+\+\+ b/(.*)$", open(f"{d}/patch.diff").read(), re.M)
        meta = {"property": p, "origin": origin, "base_commit": base, "applies_to": "git -C <copy of /repo> apply patch.diff",
                "confirmed": {"test_suite_with_patch": f"825 passed, 2 skipped (tools/seed5_eval.sh <Cxx> <A|B> {wave})", "demo_with_patch_exit": 1, "demo_without_patch_exit": 0},
                "detected_by_quick_tier_as_first_run": f"{p}/{x}" in first, "files_changed": files}
        json.dump(meta, open(f"{d}/meta.json", "w"), indent=1)
print("filed")
