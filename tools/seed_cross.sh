#!/bin/bash
# usage: tools/seed_cross.sh <seed-dir>... : run ALL quick checks against each seeded patch (scratch copy), print which checks report a new violation
cd /verif
for sd in "$@"; do sd=$(readlink -f $sd)
  D=$(mktemp -d /dev/shm/cross-XXXXXX); mkdir -p $D/repo
  (cd /repo && git ls-files -z src tests docs/schema.json pyproject.toml | xargs -0 cp --parents -t $D/repo)
  if ! (cd $D/repo && patch -p1 -s < $sd/patch.diff); then echo "$(basename $sd): PATCH-FAILED"; rm -rf $D; continue; fi
  hits=""
  for p in C01 C02 C03 C04 C05 C06 C07 C08 C09 C10 C11 C12 C13 C14 C15 C16 C17 C18 C19 C20; do
    out=$(VERIF_REPO_SRC=$D/repo/src /venv/bin/python -B mc/run.py $p --tier quick --no-evidence 2>&1 | tail -1)
    n=$(echo "$out" | grep -o "new=[0-9]*" | cut -d= -f2)
    [ "${n:-0}" != "0" ] && hits="$hits $p($n)"
  done
  echo "$(basename $sd): detected by:${hits:- none}"
  rm -rf $D
done
