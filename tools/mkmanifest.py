#!/venv/bin/python
"""Regenerate /verif/MANIFEST.json from the check modules present (mc/checks/cXX.py with MANIFEST dict).

Every check module carries its own manifest text:
    MANIFEST = {"category": ..., "text": ..., "note": ..., "technique": ..., "design_ref": ...}
Properties without a check module are listed under not_applicable with the reason in NOT_APPLICABLE below.
"""
import importlib
import json
import os
import sys

ROOT = os.path.dirname(os.path.dirname(os.path.abspath(__file__)))
sys.path.insert(0, ROOT)
sys.dont_write_bytecode = True

NOT_BUILT = "check not built yet in this session (design in DESIGN.md section 3); not claimed until it exists"
NOT_APPLICABLE: dict[str, str] = {}

props = [json.loads(l)["id"] for l in open(os.path.join(ROOT, "properties.jsonl")) if l.strip()]
checks, na = [], []
for pid in props:
    path = os.path.join(ROOT, "mc", "checks", pid.lower() + ".py")
    if not os.path.exists(path) or pid in NOT_APPLICABLE:
        na.append({"property_id": pid, "reason": NOT_APPLICABLE.get(pid, NOT_BUILT)})
        continue
    src = open(path).read()
    # the MANIFEST dict is a literal at module level; evaluate it without importing griffe
    ns: dict = {}
    start = src.index("MANIFEST = {")
    depth = 0
    for i in range(start + len("MANIFEST = "), len(src)):
        if src[i] == "{":
            depth += 1
        elif src[i] == "}":
            depth -= 1
            if depth == 0:
                end = i + 1
                break
    m = eval(src[start + len("MANIFEST = "):end], {})  # noqa: S307
    checks.append({
        "property_id": pid,
        "quick_cmd": f"/venv/bin/python -B mc/run.py {pid} --tier quick",
        "thorough_cmd": f"/venv/bin/python -B mc/run.py {pid} --tier thorough",
        "evidence_file": f"/verif/evidence/{pid}.json",
        "replay_cmd_template": f"/venv/bin/python -B mc/run.py {pid} --replay {{path}}",
        "engine": "mc",
        "level_claimed": {"category": m["category"], "text": m["text"], "design_ref": m.get("design_ref", "DESIGN.md section 3, " + pid)},
        "level_note": m["note"],
        "technique": m["technique"],
    })

manifest = {
    "version": 1,
    "setup_cmd": "/venv/bin/python -B tools/setup_check.py",
    "hooks": {
        "guard": "GRIFFE_VERIF",
        "enable": "no source hooks exist: every seam (os.walk, Path.iterdir, subprocess.run in _griffe.git, extension events, parser reader tables) is intercepted from the harness by assignment at run time; checks import /repo/src directly (nothing to build)",
        "baseline_off_cmd": "cd /repo && /venv/bin/python -m pytest -ra -q -p no:cacheprovider --timeout=900 --continue-on-collection-errors",
        "source_commits": [],
        "add_only": True,
    },
    "engines": [{
        "name": "mc",
        "path": "/verif/mc",
        "serves_properties": [c["property_id"] for c in checks],
        "kind_free_text": "hand-written bounded exhaustive explorers in Python driving the real code in /repo/src: size-ordered small-scope enumeration (E1), explicit-state BFS over operation histories with a lock-step reference model (E2), stateless choice-point DFS over listing orders and fault placements with deviation bounding (E3)",
    }],
    "checks": checks,
    "notes": "Genuine defects found are either repaired by 'fix:' commits in /repo or listed in /verif/known_findings.json (read-only at run time); see DESIGN.md section 6 and the Findings log.",
    "not_applicable": na,
}
with open(os.path.join(ROOT, "MANIFEST.json"), "w") as f:
    json.dump(manifest, f, indent=1)
try:
    import jsonschema
    jsonschema.validate(manifest, json.load(open("/root/.vp/MANIFEST.schema.json")))
    print("MANIFEST.json valid;", len(checks), "checks,", len(na), "not claimed")
except ImportError:
    print("written (jsonschema not importable here)")
