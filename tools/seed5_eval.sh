#!/bin/bash
# usage: tools/seed5_eval.sh <Cxx> <A|B> [wave] : wave-5 seeds (two per agent): confirm change X of /tmp/seed5-<Cxx> in the scratch worktree /tmp/wt5-<Cxx>, then run our quick check on a scratch copy of /repo
P=$1; X=$2; W=${3:-5}; WT=/tmp/wt$W-$P; SD=/tmp/seed$W-$P
[ -s $SD/$X.diff ] || { echo "no $X.diff"; exit 2; }
[ -f $SD/demo_$X.py ] || { echo "no demo_$X.py"; exit 2; }
git -C $WT checkout -q -- . ; git -C $WT clean -fdq src tests 2>/dev/null
git -C $WT apply $SD/$X.diff || { echo "patch does not apply to its own worktree"; exit 2; }
echo "--- $P/$X patch: $(grep -c '^[+-][^+-]' $SD/$X.diff) changed lines in $(grep -c '^diff' $SD/$X.diff) file(s): $(grep '^+++ ' $SD/$X.diff | sed 's#+++ b/##' | tr '\n' ' ')"
( cd $WT && PYTHONPATH=$WT/src timeout 900 /venv/bin/python -m pytest -q -p no:cacheprovider -o addopts="" -n 8 2>&1 | tail -1 )
( cd /tmp && timeout 180 /venv/bin/python $SD/demo_$X.py > /dev/shm/seed5-$P-$X.demo1 2>&1 ); RC1=$?
git -C $WT apply -R $SD/$X.diff
( cd /tmp && timeout 180 /venv/bin/python $SD/demo_$X.py > /dev/shm/seed5-$P-$X.demo0 2>&1 ); RC0=$?
echo "--- demo with change rc=$RC1 ; without rc=$RC0 :: $(tail -1 /dev/shm/seed5-$P-$X.demo1 | cut -c1-200)"
RES=$(cd /verif && TAILN=40 tools/mutant.sh $SD/$X.diff $P quick 2>&1 | grep -v "^error:\|^KNOWN")
echo "$RES" | grep -A1 "^VIOLATION" | grep key | head -3 | cut -c1-260
echo "$RES" | tail -2
