#!/venv/bin/python
"""Create a mutant patch without touching /repo: mkmut.py <name> <relpath> <old> <new> [count]
Writes /verif/mutants/<name>.diff (a/ b/ prefixes, apply with patch -p1 in a copy of /repo)."""
import difflib, sys, os
name, rel, old, new = sys.argv[1:5]
src = open(os.path.join("/repo", rel)).read()
n = src.count(old)
want = int(sys.argv[5]) if len(sys.argv) > 5 else 1
assert n == want, f"{old!r} occurs {n} times in {rel}"
mut = src.replace(old, new)
d = "".join(difflib.unified_diff(src.splitlines(True), mut.splitlines(True), "a/" + rel, "b/" + rel))
out = os.path.join(os.path.dirname(os.path.dirname(os.path.abspath(__file__))), "mutants", name + ".diff")
mode = "a" if os.path.exists(out) and os.environ.get("APPEND") else "w"
open(out, mode).write(d)
print("wrote", out)
