#!/venv/bin/python
"""MANIFEST.setup_cmd: nothing is compiled; verify the offline prerequisites the checks rely on."""
import os, sys, shutil
sys.dont_write_bytecode = True
sys.path.insert(0, os.path.dirname(os.path.dirname(os.path.abspath(__file__))))
from mc.core import boot
boot.boot()
import griffe, jsonschema  # noqa
assert shutil.which("git"), "git missing"
for d in ("evidence", "replays"):
    os.makedirs(os.path.join(boot.VERIF_ROOT, d), exist_ok=True)
print("setup ok: griffe from", griffe.__file__)
