#!/bin/bash
# usage: tools/seed_now.sh <seed-dir>... : run the property's quick check against each filed change (scratch copy of /repo) and record detected_now / reported_keys in meta.json
cd /verif
for sd in "$@"; do sd=$(readlink -f $sd); P=$(basename $sd | cut -c1-3)
  RES=$(TAILN=60 tools/mutant.sh $sd/patch.diff $P quick 2>&1)
  echo "$RES" > /dev/shm/seed_now.$$.txt
  /venv/bin/python - "$sd" /dev/shm/seed_now.$$.txt <<'PY'
import json, re, sys
sd, out = sys.argv[1:3]; t = open(out).read()
m = json.load(open(sd + "/meta.json"))
keys = re.findall(r"^  key=(\S+)", t, re.M)
n = re.search(r"new=(\d+)", t)
m["detected_now"] = bool(n and int(n.group(1)) > 0) and "mutant rc=1" in t
m["new_keys_now"] = int(n.group(1)) if n else None
m["reported_keys"] = keys[:3]
if "PATCH-FAILED" in t: m["detected_now"] = None; m["note"] = "patch no longer applies to the current tree"
json.dump(m, open(sd + "/meta.json", "w"), indent=1)
print(sd.split("/")[-1], "detected_now=", m["detected_now"], keys[:1])
PY
done; rm -f /dev/shm/seed_now.$$.txt
