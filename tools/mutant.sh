#!/bin/bash
# usage: tools/mutant.sh <patch.diff> <Cxx> [tier] [--tests]
# Applies the patch to a scratch copy of /repo (never to /repo itself), runs the check against the copy, removes the copy.
set -u
PATCH=$(readlink -f "$1"); PROP=$2; TIER=${3:-quick}
D=$(mktemp -d /dev/shm/mut-XXXXXX)
mkdir -p $D/repo && (cd /repo && git ls-files -z src tests docs/schema.json pyproject.toml | xargs -0 cp --parents -t $D/repo) 
(cd /repo && git diff HEAD --quiet) || echo "note: /repo has uncommitted changes; copying committed+working files"
if ! (cd $D/repo && patch -p1 -s < "$PATCH"); then echo "PATCH-FAILED"; rm -rf $D; exit 3; fi
if [ "${4:-}" = "--tests" ]; then
  (cd $D/repo && PYTHONPATH=$D/repo/src /venv/bin/python -m pytest -q -p no:cacheprovider -o addopts="" -x -n 8 2>&1 | tail -2)
fi
cd /verif && VERIF_REPO_SRC=$D/repo/src /venv/bin/python -B mc/run.py $PROP --tier $TIER --no-evidence 2>&1 | tail -${TAILN:-6}
RC=${PIPESTATUS[0]}
rm -rf $D
echo "mutant rc=$RC"
