#!/venv/bin/python
"""Bulk-register the violation keys of the last run of a property as open known findings (manual tool, used after triage).
usage: kf_bulk.py Cxx <family-prefix> ['note']"""
import glob, json, os, subprocess, sys
prop, fam = sys.argv[1:3]
note = sys.argv[3] if len(sys.argv) > 3 else ""
root = os.path.dirname(os.path.dirname(os.path.abspath(__file__)))
n = 0
for f in sorted(glob.glob(f"{root}/replays/{prop}/*.json")):
    r = json.load(open(f))
    if r["key"].startswith(fam):
        ex = {k: v for k, v in r["case"].items() if k != "tree"} if isinstance(r["case"], dict) else r["case"]
        subprocess.check_call(["/venv/bin/python", f"{root}/tools/kf.py", "open", prop, r["key"], (note + " " if note else "") + r["summary"], json.dumps(ex)])
        n += 1
print("registered", n)
