"""Shard driver: runs a check's shards on a process pool, merges, writes evidence, prints verdict lines.

A check module (mc/checks/cXX.py) provides

    PROPERTY = "C10"; LEVEL = "exploration" | "model_checking" | "fault_enumeration"
    RULE = "<how cases are enumerated and what makes one non-trivial>"
    ASSUMPTIONS = [...]
    def shards(tier) -> list            # JSON-able shard descriptors, deterministic
    def run_shard(shard, tier) -> dict  # Acc(...).result()
    def replay(case) -> list[(key, summary, detail)]
    def bounds(tier) -> dict            # printed in the evidence

Nothing is sampled: a shard enumerates its slice of the bounded space completely, or says
`exhaustive=False` and why.
"""
from __future__ import annotations

import argparse
import collections
import hashlib
import importlib
import json
import multiprocessing as mp
import os
import sys
import time
import traceback

from mc.core import boot, findings, sandbox

VERIF = boot.VERIF_ROOT


def jdump(x) -> str:
    return json.dumps(x, sort_keys=True, default=str)


class Acc:
    """Accumulator a shard fills in."""

    def __init__(self) -> None:
        self.evaluations = 0
        self.nontrivial = 0
        self.nontrivial_hashes: set[int] | None = None
        self.outcomes: collections.Counter[str] = collections.Counter()
        self.counters: collections.Counter[str] = collections.Counter()
        self.violations: dict[str, dict] = {}
        self.samples: list = []
        self.states = 0
        self.transitions = 0
        self.traces = 0
        self.exhaustive = True
        self.notes: list[str] = []
        self._h = hashlib.blake2b(digest_size=8)
        self.max_samples = 2

    def case(self, case, outcome: str = "ok", nontrivial: bool = True, obs=None, distinct_key=None) -> None:
        self.evaluations += 1
        self.outcomes[outcome] += 1
        if nontrivial:
            if distinct_key is not None:
                if self.nontrivial_hashes is None:
                    self.nontrivial_hashes = set()
                self.nontrivial_hashes.add(hash(distinct_key))
            else:
                self.nontrivial += 1
        if len(self.samples) < self.max_samples and nontrivial:
            self.samples.append({"case": case, "outcome": outcome} if obs is None else {"case": case, "outcome": outcome, "obs": obs})
        self._h.update(outcome.encode())
        if obs is not None:
            self._h.update(jdump(obs).encode())

    def observe(self, obs) -> None:
        self._h.update(jdump(obs).encode())

    def violation(self, key: str, summary: str, case, detail=None, size: int | None = None) -> None:
        if size is None:
            size = len(jdump(case))
        cur = self.violations.get(key)
        if cur is None:
            self.violations[key] = {"summary": summary, "case": case, "detail": detail, "size": size, "count": 1}
        else:
            cur["count"] += 1
            if size < cur["size"]:
                cur.update(summary=summary, case=case, detail=detail, size=size)
        self._h.update(("V" + key).encode())

    def result(self) -> dict:
        return {
            "evaluations": self.evaluations,
            "nontrivial": self.nontrivial,
            "nontrivial_hashes": self.nontrivial_hashes,
            "outcomes": dict(self.outcomes),
            "counters": dict(self.counters),
            "violations": self.violations,
            "samples": self.samples,
            "states": self.states,
            "transitions": self.transitions,
            "traces": self.traces,
            "exhaustive": self.exhaustive,
            "notes": self.notes,
            "digest": self._h.hexdigest(),
        }


def _worker_init(run_id: str) -> None:
    os.environ["VERIF_RUN_ID"] = run_id
    boot.boot()


def _run_one(args):
    prop, tier, idx, shard = args
    try:
        mod = importlib.import_module("mc.checks." + prop.lower())
        t0 = time.time()
        res = mod.run_shard(shard, tier)
        res["wall"] = time.time() - t0
        return idx, res, None
    except BaseException:  # noqa: BLE001  harness failure, reported as such
        return idx, None, traceback.format_exc()


def merge(results: list[dict]) -> dict:
    out = Acc()
    hashes: set[int] | None = None
    exhaustive = True
    for r in results:
        out.evaluations += r["evaluations"]
        out.nontrivial += r["nontrivial"]
        if r["nontrivial_hashes"] is not None:
            hashes = (hashes or set()) | r["nontrivial_hashes"]
        out.outcomes.update(r["outcomes"])
        out.counters.update(r["counters"])
        out.states += r["states"]
        out.transitions += r["transitions"]
        out.traces += r["traces"]
        exhaustive = exhaustive and r["exhaustive"]
        out.notes.extend(n for n in r["notes"] if n not in out.notes)
        if len(out.samples) < 4:
            out.samples.extend(r["samples"][: 4 - len(out.samples)])
        for k, v in r["violations"].items():
            cur = out.violations.get(k)
            if cur is None:
                out.violations[k] = dict(v)
            else:
                cnt = cur["count"] + v["count"]
                if (v["size"], jdump(v["case"])) < (cur["size"], jdump(cur["case"])):
                    cur.update(v)
                cur["count"] = cnt
    res = out.result()
    res["exhaustive"] = exhaustive
    if hashes is not None:
        res["nontrivial"] += len(hashes)
    return res


def write_replay(prop: str, key: str, v: dict) -> str:
    d = os.path.join(VERIF, "replays", prop)
    os.makedirs(d, exist_ok=True)
    sha = hashlib.sha1((prop + key).encode()).hexdigest()[:12]
    path = os.path.join(d, sha + ".json")
    with open(path, "w") as f:
        json.dump(
            {
                "property": prop,
                "key": key,
                "summary": v["summary"],
                "case": v["case"],
                "detail": v["detail"],
                "inputs_failing": v["count"],
                "command": f"/venv/bin/python -B mc/run.py {prop} --replay {path}",
            },
            f,
            indent=1,
            sort_keys=True,
            default=str,
        )
    test = os.path.join(d, f"test_replay_{sha}.py")
    with open(test, "w") as f:
        f.write(
            "# Plain replay of one recorded counterexample; no explorer involved.\n"
            "import json, sys\n"
            f"sys.path.insert(0, {VERIF!r})\n"
            "from mc.core import boot; boot.boot()\n"
            f"from mc.checks import {prop.lower()} as chk\n\n"
            "def test_replay():\n"
            f"    rec = json.load(open({path!r}))\n"
            "    got = [v for v in chk.replay(rec['case']) if v[0] == rec['key']]\n"
            "    assert not got, got\n"
        )
    return path


def main(argv=None) -> int:
    ap = argparse.ArgumentParser()
    ap.add_argument("prop")
    ap.add_argument("--tier", default=os.environ.get("VERIF_TIER", "quick"), choices=["quick", "thorough"])
    ap.add_argument("--replay")
    ap.add_argument("--jobs", type=int, default=int(os.environ.get("VERIF_JOBS", "0")) or min(16, os.cpu_count() or 4))
    ap.add_argument("--no-evidence", action="store_true")
    ns = ap.parse_args(argv)
    prop = ns.prop.upper()

    # own the environment, then re-exec once so that hash randomisation is fixed too
    if os.environ.get("VERIF_BOOTED") != "1":
        env = dict(os.environ)
        env.update(
            VERIF_BOOTED="1",
            PYTHONHASHSEED="0",
            PYTHONDONTWRITEBYTECODE="1",
            VERIF_RUN_ID="%d-%d" % (os.getpid(), int(time.time())),
            GIT_CONFIG_GLOBAL="/dev/null",
            GIT_CONFIG_SYSTEM="/dev/null",
            GIT_AUTHOR_NAME="v",
            GIT_AUTHOR_EMAIL="v@v",
            GIT_COMMITTER_NAME="v",
            GIT_COMMITTER_EMAIL="v@v",
            GIT_AUTHOR_DATE="2020-01-01T00:00:00Z",
            GIT_COMMITTER_DATE="2020-01-01T00:00:00Z",
            LC_ALL="C",
            TZ="UTC",
            COLUMNS="200",
        )
        for k in ("GRIFFE_LOG_LEVEL", "FORCE_COLOR", "NO_COLOR", "PYTHONPATH", "COVERAGE_PROCESS_START"):
            env.pop(k, None)
        os.execve(sys.executable, [sys.executable, "-B", os.path.join(VERIF, "mc", "run.py"), *(argv or sys.argv[1:])], env)

    boot.boot()
    t0 = time.time()
    mod = importlib.import_module("mc.checks." + prop.lower())
    seed = boot.seed()
    known = findings.load(prop)
    top = sandbox.run_top()
    os.makedirs(top, exist_ok=True)
    priv_tmp = os.path.join(top, "tmp")
    os.makedirs(priv_tmp, exist_ok=True)
    os.environ["TMPDIR"] = priv_tmp
    os.chdir(top)

    try:
        if ns.replay:
            rec = json.load(open(ns.replay))
            got = mod.replay(rec["case"])
            hit = [g for g in got if g[0] == rec["key"]]
            for g in got:
                print(f"replayed: key={g[0]} {g[1]}")
            if hit:
                if rec["key"] in known.open_keys:
                    print(f"KNOWN-FINDING: property={prop} {rec['key']} {hit[0][1]}")
                    return 0
                print(f"VIOLATION property={prop} replay={ns.replay}")
                return 1
            print("replay: the recorded violation does not occur on this tree")
            return 0

        import shutil

        shutil.rmtree(os.path.join(VERIF, "replays", prop), ignore_errors=True)
        if hasattr(mod, "run_all"):
            res = mod.run_all(ns.tier, ns.jobs)
            if getattr(mod, "PROBE_RUN_ALL", False):
                res2 = mod.run_all(ns.tier, ns.jobs)
                if res2["digest"] != res["digest"]:
                    print(f"HARNESS-NONDETERMINISM property={prop}: two complete explorations observed different things")
                    return 2
            return _finish(prop, mod, ns, [res], 1, "whole exploration executed twice; observation digests equal" if getattr(mod, "PROBE_RUN_ALL", False) else None, known, seed, t0)

        shard_list = list(mod.shards(ns.tier))
        order = list(range(len(shard_list)))
        if shard_list:
            rot = seed % len(shard_list)
            order = order[rot:] + order[:rot]
        jobs = [(prop, ns.tier, i, shard_list[i]) for i in order]
        # determinism probe: the first shard is run twice (two worker processes)
        probe = (prop, ns.tier, -1, shard_list[order[0]]) if shard_list and getattr(mod, "DETERMINISM_PROBE", True) else None
        if probe:
            jobs.insert(min(len(jobs), ns.jobs), probe)
        results: dict[int, dict] = {}
        ctx = mp.get_context("fork")
        maxtasks = getattr(mod, "MAXTASKS", None)
        with ctx.Pool(min(ns.jobs, max(1, len(jobs))), initializer=_worker_init, initargs=(os.environ["VERIF_RUN_ID"],), maxtasksperchild=maxtasks) as pool:
            for idx, res, err in pool.imap_unordered(_run_one, jobs, chunksize=1):
                if err:
                    print(f"HARNESS-ERROR property={prop} shard={idx}\n{err}")
                    return 2
                results[idx] = res
        probe_failed = None
        if probe:
            again = results.pop(-1)
            first = results[order[0]]
            if again["digest"] != first["digest"] or again["evaluations"] != first["evaluations"]:
                # the same shard gave different observations in two worker processes with different load histories: either the harness or the
                # library carries state from one case to the next.  Violations found are still reported (exit 1); with none, this is exit 2.
                probe_failed = f"shard {order[0]}"
        return _finish(prop, mod, ns, [results[i] for i in sorted(results)], len(shard_list), "first shard executed twice in separate worker processes; observation digests equal" if probe else None, known, seed, t0,
                       probe_failed=probe_failed)
    finally:
        os.chdir("/")
        sandbox.cleanup_run_top()


def _finish(prop, mod, ns, result_list, nshards, probe, known, seed, t0, probe_failed=None) -> int:
    if True:
        merged = merge(result_list)
        wall = time.time() - t0

        # verdict lines, per key
        rc = 0
        new_keys, known_hit = [], []
        for key in sorted(merged["violations"], key=lambda k: (merged["violations"][k]["size"], k)):
            v = merged["violations"][key]
            path = write_replay(prop, key, v)
            if key in known.open_keys:
                known_hit.append(key)
                print(f"KNOWN-FINDING: property={prop} {key} {v['summary']} [{v['count']} inputs; replay={path}]")
            else:
                new_keys.append(key)
                if len(new_keys) <= 20:
                    print(f"VIOLATION property={prop} replay={path}")
                    print(f"  key={key} inputs={v['count']} :: {v['summary']}")
                rc = 1
        if len(new_keys) > 20:
            import collections

            classes = collections.Counter("/".join(k.split("/")[:2]) for k in new_keys)
            print(f"  ... and {len(new_keys) - 20} more violation keys (all in the evidence file); by class: " + ", ".join(f"{c} x{n}" for c, n in classes.most_common(8)))
        if probe_failed:
            if not new_keys:
                print(f"HARNESS-NONDETERMINISM property={prop} {probe_failed}: two runs of the same shard observed different things")
                return 2
            print(f"NOTE property={prop} {probe_failed}: the same cases gave different observations after a different load history (state carried between loads)")
            probe = "FAILED: " + probe_failed + " differed between two worker processes"

        if not ns.no_evidence:
            level = mod.LEVEL
            cov = {
                "evaluations": merged["evaluations"],
                "distinct_nontrivial": merged["nontrivial"],
                "rule": mod.RULE,
                "samples": merged["samples"][:4],
                "exhaustive": bool(merged["exhaustive"]),
                "bounds": mod.bounds(ns.tier) if hasattr(mod, "bounds") else {},
                "outcome_classes": merged["outcomes"],
                "counters": merged["counters"],
                "shards": nshards,
                "determinism_probe": probe or "n/a",
                "known_findings_hit": known_hit,
                "new_violation_keys": new_keys,
                "notes": merged["notes"],
            }
            if level == "model_checking":
                cov["states"] = merged["states"]
                cov["transitions"] = merged["transitions"]
                cov["traces_validated_against_impl"] = merged["traces"]
            elif merged["states"]:
                cov["states"] = merged["states"]
                cov["transitions"] = merged["transitions"]
            ev = {
                "property_id": prop,
                "tier": ns.tier,
                "seed": seed,
                "level": level,
                "coverage": cov,
                "assumptions": list(getattr(mod, "ASSUMPTIONS", [])),
                "wall_s": round(wall, 2),
                "violations": len(new_keys),
            }
            try:
                import jsonschema

                jsonschema.validate(json.loads(json.dumps(ev, default=str)), json.load(open("/root/.vp/EVIDENCE.schema.json")))
            except ImportError:
                pass
            except FileNotFoundError:
                pass
            except Exception as e:  # noqa: BLE001
                print(f"HARNESS-ERROR property={prop}: evidence does not validate: {str(e)[:300]}")
                return 2
            os.makedirs(os.path.join(VERIF, "evidence"), exist_ok=True)
            with open(os.path.join(VERIF, "evidence", prop + ".json"), "w") as f:
                json.dump(ev, f, indent=1, sort_keys=True, default=str)
        print(
            f"{prop} {ns.tier}: evaluations={merged['evaluations']} nontrivial={merged['nontrivial']} "
            f"states={merged['states']} transitions={merged['transitions']} outcomes={len(merged['outcomes'])} "
            f"exhaustive={merged['exhaustive']} known={len(known_hit)} new={len(new_keys)} wall={wall:.1f}s"
        )
        return rc
