"""E2: explicit-state breadth-first search over operation histories, driving the real implementation.

A *state* is identified by a history (tuple of operation indices from a root); it is rebuilt by replaying
the history on fresh objects (live object graphs are not copied).  `expand(history)` — supplied by the check,
executed in a worker process — replays the history, then for every enabled operation replays again, applies the
operation to the real objects and to the reference model in lock-step, evaluates the invariants, and returns
(op, outcome, canonical-state digest, violations).  The parent deduplicates on the digest, level by level, so
the first counterexample reported is a shortest one.
"""
from __future__ import annotations

import multiprocessing as mp
import time

from mc.core import boot
from mc.core.driver import Acc


def _init(run_id, modname):
    import importlib
    import os

    os.environ["VERIF_RUN_ID"] = run_id
    boot.boot()
    global _mod
    _mod = importlib.import_module(modname)


def _expand_chunk(args):
    tier, chunk = args
    return [(_h, _mod.expand(_h, tier)) for _h in chunk]


def search(modname: str, tier: str, roots: list, max_depth: int, jobs: int, max_states: int | None = None, time_cap: float | None = None) -> dict:
    """roots: list of histories (tuples). Returns an Acc-style result dict."""
    import os

    acc = Acc()
    acc.max_samples = 0
    t0 = time.time()
    seen: dict[bytes, tuple] = {}
    frontier: list[tuple] = []
    ctx = mp.get_context("fork")
    pool = ctx.Pool(jobs, initializer=_init, initargs=(os.environ["VERIF_RUN_ID"], modname))
    per_depth = []
    try:
        # the roots themselves
        import importlib

        mod = importlib.import_module(modname)
        for r in roots:
            d = mod.digest_of(tuple(r), tier)
            if d not in seen:
                seen[d] = tuple(r)
                frontier.append(tuple(r))
        depth = 0
        complete = True
        while frontier and depth < max_depth:
            depth += 1
            nxt: list[tuple] = []
            chunks = [frontier[i:i + 8] for i in range(0, len(frontier), 8)]
            new_here = 0
            for part in pool.imap(_expand_chunk, [(tier, c) for c in chunks], chunksize=1):
                for hist, outs in part:
                    for op, outcome, dig, viols, enabled in outs:
                        acc.transitions += 1
                        acc.outcomes[outcome] += 1
                        acc.traces += 1
                        acc.observe((op, outcome, dig.hex()))
                        for key, summary, detail in viols:
                            acc.violation(key, summary, {"history": mod.describe(hist + (op,), tier), "ops": list(hist + (op,)), "root_len": mod.root_len(hist, tier)}, detail, size=len(hist) + 1)
                        if enabled and dig not in seen:
                            seen[dig] = hist + (op,)
                            nxt.append(hist + (op,))
                            new_here += 1
            per_depth.append({"depth": depth, "new_states": new_here, "frontier_expanded": len(frontier)})
            frontier = nxt
            if max_states and len(seen) > max_states:
                complete = False
                acc.notes.append(f"state cap {max_states} reached at depth {depth}; all histories of length <= {depth} were explored")
                break
            if time_cap and time.time() - t0 > time_cap:
                complete = False
                acc.notes.append(f"time cap {time_cap}s reached after completing depth {depth}; all histories of length <= {depth} were explored")
                break
        fixpoint = not frontier
        acc.states = len(seen)
        acc.evaluations = acc.transitions
        acc.nontrivial = len(seen)
        acc.counters["max_depth_completed"] = depth
        acc.counters["fixpoint_reached"] = int(fixpoint)
        acc.exhaustive = True  # within the depth bound stated
        acc.notes.append("per-depth: " + ", ".join(f"d{p['depth']}:+{p['new_states']}" for p in per_depth))
        if fixpoint:
            acc.notes.append("frontier empty: every reachable canonical state of the universe was visited (fixpoint), not just histories up to the depth bound")
        hs = sorted(seen.values(), key=lambda h: (len(h), h))
        picks = [hs[len(hs) // 3], hs[(2 * len(hs)) // 3], hs[-1]] if len(hs) >= 3 else hs
        acc.samples = [{"history": mod.describe(h, tier)} for h in picks]
    finally:
        pool.terminate()
        pool.join()
    return acc.result()
