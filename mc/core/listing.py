"""E3 seam: own the order in which the operating system lists directory entries.

Griffe's finder lists directories through `os.walk` (submodule discovery) and `Path.iterdir` (search-path contents,
editable installs).  Inside `with Listing(order):` both are intercepted *as seen from _griffe.finder*; `order(dirpath,
names)` returns the names in the order the "operating system" reports them.  Every listing is recorded as a choice
point, so that an explorer can enumerate alternative orders per directory.
"""
from __future__ import annotations

import os
import pathlib


class _OsProxy:
    def __init__(self, real, listing):
        self._real = real
        self._listing = listing

    def __getattr__(self, name):
        return getattr(self._real, name)

    def walk(self, top, topdown=True, onerror=None, followlinks=False):  # noqa: FBT002
        for root, dirs, files in self._real.walk(top, topdown=topdown, onerror=onerror, followlinks=followlinks):
            dirs[:] = self._listing.reorder(root, dirs, "walk-dirs")
            files = self._listing.reorder(root, files, "walk-files")
            yield root, dirs, files


class Listing:
    def __init__(self, order=None):
        self.order = order or (lambda d, names, what: sorted(names))
        self.points: list[tuple[str, str, tuple[str, ...]]] = []  # (directory, what, sorted names) in encounter order

    def reorder(self, directory, names, what):
        names = sorted(names)
        self.points.append((str(directory), what, tuple(names)))
        out = list(self.order(str(directory), names, what))
        assert sorted(out) == names, "an order function must return a permutation"
        return out

    def __enter__(self):
        from _griffe import finder

        self._finder = finder
        self._real_os = finder.os
        finder.os = _OsProxy(self._real_os, self)
        self._real_iterdir = pathlib.Path.iterdir
        listing = self

        def iterdir(path):
            entries = {p.name: p for p in listing._real_iterdir(path)}
            for n in listing.reorder(path, list(entries), "iterdir"):
                yield entries[n]

        pathlib.Path.iterdir = iterdir
        return self

    def __exit__(self, *exc):
        self._finder.os = self._real_os
        pathlib.Path.iterdir = self._real_iterdir
        return False


def ascending(d, names, what):
    return sorted(names)


def descending(d, names, what):
    return sorted(names, reverse=True)
