"""Known findings: read-only at run time.

/verif/known_findings.json holds
  {"findings": [{"property": "C10", "key": "<defect signature>", "status": "open" | "fixed",
                 "summary": "...", "example": <smallest failing case>, "commit": "<sha, when fixed>",
                 "line": "fixed: property=C10 <sha> <what failed>"}]}
Only `open` entries suppress anything, and only the exact key they name.
"""
from __future__ import annotations

import json
import os

from mc.core import boot

PATH = os.path.join(boot.VERIF_ROOT, "known_findings.json")


class Known:
    def __init__(self, entries: list[dict]) -> None:
        self.entries = entries
        self.open_keys = {e["key"] for e in entries if e.get("status") == "open"}
        self.fixed_keys = {e["key"] for e in entries if e.get("status") == "fixed"}


def load(prop: str) -> Known:
    try:
        with open(PATH) as f:
            data = json.load(f)
    except FileNotFoundError:
        return Known([])
    return Known([e for e in data.get("findings", []) if e.get("property") == prop])
