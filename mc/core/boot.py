"""Process bootstrap shared by every check: put the tree under test first on sys.path and prove it.

`import griffe` in /venv resolves to the *installed* griffelib in site-packages; only `_griffe`
resolves to /repo/src (through griffe.pth).  Every check therefore imports this module first.
"""
from __future__ import annotations

import logging
import os
import sys

REPO_SRC = os.environ.get("VERIF_REPO_SRC", "/repo/src")
REPO_ROOT = os.path.dirname(REPO_SRC.rstrip("/"))
VERIF_ROOT = os.path.dirname(os.path.dirname(os.path.dirname(os.path.abspath(__file__))))

_done = False


def boot() -> None:
    global _done
    if _done:
        return
    # drop any stale entries, then put the tree first
    sys.path[:] = [p for p in sys.path if os.path.abspath(p or ".") != os.path.abspath(REPO_SRC)]
    sys.path.insert(0, REPO_SRC)
    if VERIF_ROOT not in sys.path:
        sys.path.insert(1, VERIF_ROOT)
    sys.dont_write_bytecode = True
    for name in list(sys.modules):
        if name == "griffe" or name.startswith(("griffe.", "_griffe")):
            del sys.modules[name]
    import _griffe
    import griffe

    for mod in (griffe, _griffe):
        f = os.path.abspath(mod.__file__)
        if not f.startswith(os.path.abspath(REPO_SRC) + os.sep):
            raise SystemExit(f"HARNESS-ERROR: {mod.__name__} imported from {f}, not from {REPO_SRC}")
    # Griffe logs through the std logging module; formatting records costs 4x parser throughput.
    logging.disable(logging.CRITICAL)
    _done = True


def seed() -> int:
    try:
        return int(os.environ.get("VERIF_SEED", "0"))
    except ValueError:
        return 0
