"""Scratch space, per-case alarms, interpreter-state snapshots."""
from __future__ import annotations

import contextlib
import os
import shutil
import signal
import sys
import tempfile

_ROOT = None


def scratch_root() -> str:
    """One scratch directory per process, on tmpfs when available; removed by the driver."""
    global _ROOT
    if _ROOT and os.path.isdir(_ROOT) and _ROOT.endswith(str(os.getpid())):
        return _ROOT
    base = os.environ.get("VERIF_SCRATCH")
    if not base:
        base = "/dev/shm" if os.path.isdir("/dev/shm") and os.access("/dev/shm", os.W_OK) else "/var/tmp"
    top = os.path.join(base, "griffe-verif-%s" % os.environ.get("VERIF_RUN_ID", "x"))
    os.makedirs(top, exist_ok=True)
    _ROOT = os.path.join(top, "w%d" % os.getpid())
    os.makedirs(_ROOT, exist_ok=True)
    return _ROOT


def run_top() -> str:
    base = os.environ.get("VERIF_SCRATCH")
    if not base:
        base = "/dev/shm" if os.path.isdir("/dev/shm") and os.access("/dev/shm", os.W_OK) else "/var/tmp"
    return os.path.join(base, "griffe-verif-%s" % os.environ.get("VERIF_RUN_ID", "x"))


_counter = 0


@contextlib.contextmanager
def scratch_dir(prefix: str = "c"):
    global _counter
    _counter += 1
    d = os.path.join(scratch_root(), "%s%d" % (prefix, _counter))
    os.makedirs(d)
    try:
        yield d
    finally:
        shutil.rmtree(d, ignore_errors=True)


def write_tree(root: str, files: dict[str, str]) -> None:
    for rel, text in files.items():
        p = os.path.join(root, rel)
        os.makedirs(os.path.dirname(p), exist_ok=True)
        if text is None:
            os.makedirs(p, exist_ok=True)
        elif text.startswith("SYMLINK->"):
            os.symlink(text[len("SYMLINK->"):].strip(), p)  # (relative to the directory of the link; may dangle)
        else:
            with open(p, "w") as f:
                f.write(text)


class CaseTimeout(BaseException):
    """Raised by the alarm; BaseException so that `except Exception` in the code under test cannot eat it."""


def _on_alarm(signum, frame):
    raise CaseTimeout()


@contextlib.contextmanager
def time_limit(seconds: float):
    old = signal.signal(signal.SIGALRM, _on_alarm)
    signal.setitimer(signal.ITIMER_REAL, seconds)
    try:
        yield
    finally:
        signal.setitimer(signal.ITIMER_REAL, 0)
        signal.signal(signal.SIGALRM, old)


@contextlib.contextmanager
def interpreter_state():
    """Snapshot sys.modules / sys.path and restore them afterwards (harness hygiene between cases)."""
    mods = dict(sys.modules)
    path = list(sys.path)
    path_obj = sys.path
    try:
        yield
    finally:
        for k in list(sys.modules):
            if k not in mods:
                del sys.modules[k]
        sys.path = path_obj
        sys.path[:] = path


def cleanup_run_top() -> None:
    shutil.rmtree(run_top(), ignore_errors=True)
