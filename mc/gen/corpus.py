"""Shared model corpus for C08 / C09: small source features covering every object kind and optional field.

A case is (container, feature 1, feature 2 | None): every feature is combined with every other one at least once.
`EXECUTABLE` features can also be loaded by runtime inspection.
"""
from __future__ import annotations

import itertools

from mc.gen import exprs as X

GOOGLE_DOC = '''Summary line.

Longer text.

Args:
    po: Positional only.
    pk (int): Pos or kw.
    *va: Varargs.
    ko: Kw only.
    **vk: Kwargs.

Other Parameters:
    extra (str): Extra.

Returns:
    name (dict[str, int]): Named.
    (int): Unnamed.

Yields:
    int: Yielded.

Receives:
    recv (str): Received.

Raises:
    ValueError: Bad.

Warns:
    UserWarning: Warned.

Attributes:
    attr (int): An attribute.

Functions:
    f(a): A function.

Classes:
    C(a): A class.

Modules:
    m: A module.

Examples:
    Prose.

    >>> 1 + 1
    2

Note:
    Admonition.

Deprecated:
    1.0: Deprecated text.
'''
NUMPY_DOC = '''Summary line.

Parameters
----------
po
    Positional only.
pk : int, default 3
    Pos or kw.

Other Parameters
----------------
extra : str
    Extra.

Returns
-------
name : dict
    Named.

Yields
------
int
    Yielded.

Receives
--------
recv : str
    Received.

Raises
------
ValueError
    Bad.

Warns
-----
UserWarning
    Warned.

Attributes
----------
attr : int
    An attribute.

Functions
---------
f(a)
    A function.

Classes
-------
C(a)
    A class.

Modules
-------
m
    A module.

Examples
--------
Prose.

>>> 1 + 1
2

Notes
-----
Admonition.

Deprecated
----------
1.0
    Deprecated text.
'''
SPHINX_DOC = '''Summary line.

:param po: Positional only.
:param int pk: Pos or kw.
:type po: str
:returns: Something.
:rtype: dict
:raises ValueError: Bad.
:var attr: An attribute.
:vartype attr: int
'''


def _q(doc, ind="    "):
    return ind + '"""' + doc.replace("\n", "\n" + ind).rstrip(" ") + '"""'


FEATURES = {
    "module-doc": '"""Module docstring.\n\nAttributes:\n    va: Documented here.\n"""\n',
    "function": 'import functools\n@functools.cache\ndef func(po, /, pk: int = 3, *va: str, ko: "list[int]" = [1], **vk) -> "dict[str, int]":\n' + _q(GOOGLE_DOC) + "\n    return {}\n",
    "numpy-func": "def nfunc(po, pk: int = 3):\n" + _q(NUMPY_DOC) + "\n    return 1\n",
    "sphinx-func": "def sfunc(po, pk: int = 3):\n" + _q(SPHINX_DOC) + "\n    return {}\n",
    "async": "async def afunc(x=1, *, y: float = 2.5) -> None: ...\n",
    "class": (
        'class Base:\n    """Base doc."""\n    battr: int = 0\n    def bmeth(self): ...\n'
        'class K(Base):\n    """K doc."""\n    ca = 1\n    """ca doc"""\n    def __init__(self, p: int = 0) -> None:\n        self.inst: int = p\n        """inst doc"""\n'
        '    @property\n    def prop(self) -> int:\n        """Prop doc."""\n        return 1\n    @prop.setter\n    def prop(self, v): ...\n    @prop.deleter\n    def prop(self): ...\n'
        "    @staticmethod\n    def sm(): ...\n    @classmethod\n    def cm(cls): ...\n    class Nested:\n        nv = 1\n"
    ),
    "attributes": 'va: int = 1\n"""va doc"""\nvb = [1, 2]\nvc: "str"\n__all__ = ["va", "vb"]\n',
    "imports": "import os\nimport os.path as osp\nfrom typing import Any as AnyT, TYPE_CHECKING\nfrom collections import *\nif TYPE_CHECKING:\n    from decimal import Decimal\nfrom typing import (\n    Dict,\n    List as L2,\n)\nimport json, \\\n    re\n",
    "overloads": "from typing import overload\n@overload\ndef ov(a: int) -> int: ...\n@overload\ndef ov(a: str) -> str: ...\ndef ov(a): return a\n",
    "dataclass": 'import dataclasses\n@dataclasses.dataclass\nclass DC:\n    """DC doc."""\n    x: int\n    y: str = "s"\n    z: list = dataclasses.field(default_factory=list)\n'
                 # options unpacked from module-level dictionaries (field(**opts), dataclass(**opts))
                 '_fopts = {"default": 3, "kw_only": True}\n_dopts = {"frozen": True}\n@dataclasses.dataclass(**_dopts)\nclass DC2:\n    u: int\n    w: int = dataclasses.field(**_fopts)\n    v: float = dataclasses.field(**{"default": 1.5})\n',
    "lambda": "lam = lambda a, /, b=1, *c, d, **e: a\n",
    # a class member spelled like the class's own base / decorator: the header names belong to the enclosing scope
    "shadow": "def deco(c):\n    return c\nclass SBase:\n    x = 1\n@deco\nclass Child(SBase):\n    SBase = None\n    deco = 2\n    def m(self, p: SBase = SBase) -> SBase: ...\n",
    # member names that are also keys of the serialised form
    "odd-names": "kind = 1\ncls = 2\nname = 3\nmembers = 4\ndef labels(): ...\nclass docstring:\n    kind = 'x'\n    target_path = 1\n    def parameters(self, kind, name): ...\n",
    # docstring layouts: leading newline with deeper-indented continuation, indented block after the summary, leading/trailing blanks, tabs
    "doc-shapes": (
        'def d1():\n    """\n    Title\n        indented\n    """\n'
        'def d2():\n    """Title\n\n        code block\n    text\n    """\n'
        'def d3():\n    """  leading spaces"""\n'
        'def d4():\n    """Trailing blank lines.\n\n\n    """\n'
        'def d5():\n    """\tTabbed.\n\t\tmore\n    """\n'
        'class D6:\n    """\n        Deep\n            deeper\n        back\n    """\n    v = 1\n    """\n    Attr doc\n        more\n    """\n'
    ),
    # attribute access on a literal
    "const-attr": 'ca = "abc".upper\ncb = (1).real\ncc = [1].copy\ndef cf(p="x".join, q=(1.5).hex): ...\n'
                  # the trailing names are also members of the module: they must not start resolving to those after a reload
                  'upper = real = copy = tail = 0\ncd = (ca or cb).tail\nce = ca().tail.upper\ncg: (ca[0].real) = [x.copy for x in cc]\n',
    # calls with keyword arguments whose callee resolves to something else than its spelling (keywords resolve through the called function)
    "kwcall": ("import functools as ft\ndef make(size=1, **kw):\n    return lambda f: f\nkwv = make(size=2, other=make(size=3))\n@make(size=4)\ndef decorated(p=make(size=5)): ...\n"
               "class KC:\n    v: make(size=7) = ft.partial(make, size=8)\n    def m(self, q=make(size=6)) -> make(size=9): ...\n"),
    # objects local to __init__ (the visitor walks that body: they become members of the function)
    "init-locals": "class IL:\n    def __init__(self, a):\n        import warnings\n        from os import path as osp_local\n        def callback(item: int = 0) -> int: ...\n        class Local:\n            lv = 1\n        self.count = a\n",
    # dotted names of three and four parts (every part after the first resolves through the one before it)
    "dotted-chain": ("import os.path\nclass Thing:\n    class Inner:\n        class Deep:\n            dv = 1\n"
                     "chv: Thing.Inner.Deep = Thing.Inner.Deep.dv\ndef fch(p: Thing.Inner.Deep = Thing.Inner.Deep) -> Thing.Inner: ...\nchw = os.path.join\nclass Sub(Thing.Inner.Deep):\n    pass\n"),
    # more un-annotated items than the tuple annotation of the signature has elements (one, two and three items; Google and Numpy syntax)
    "doc-tuple-items": ('from typing import Iterator\n'
                        'def rt1(a) -> tuple[int, str]:\n    """Summary.\n\n    Returns:\n        first: A.\n    """\n'
                        'def rt3(a) -> tuple[int, str]:\n    """Summary.\n\n    Returns:\n        first: A.\n        second: B.\n        third: C.\n    """\n'
                        'def gy3(a) -> Iterator[tuple[int, str]]:\n    """Summary.\n\n    Yields:\n        first: A.\n        second: B.\n        third: C.\n    """\n    yield (1, "")\n'
                        'def nrt3(a) -> tuple[int, str]:\n    """Summary.\n\n    Returns\n    -------\n    first\n        A.\n    second\n        B.\n    third\n        C.\n    """\n'),
    "inherit": "import abc\nclass A(abc.ABC):\n    @abc.abstractmethod\n    def am(self): ...\n    x = 1\nclass B(A):\n    y = 2\n",
}
EXECUTABLE = list(FEATURES)
BASE = list(FEATURES)
EXPR_FEATURES = {f"expr:{t[0]}": f"x_expr = {X.text(X.depth1(i))}\ny_ann: ({X.text(X.depth1(i))})\n" for i, t in enumerate(X.TEMPLATES)
                 if t[0] not in ("Await",) and not t[0].startswith("Yield") and t[0] != "NamedExpr"}
CONTAINERS = ["module", "package", "namespace"]
# further directory shapes (each with every single feature): nested namespace portions in the first / second / both search paths, nested regular packages,
# a regular package inside a namespace portion, a stub next to its module, a stub-only package in another search path
LAYOUTS = {
    "ns-nested-2nd": ({"s1/nsp/one.py": "2", "s2/nsp/nested/two.py": "1"}, "nsp"),
    "ns-nested-1st": ({"s1/nsp/nested/two.py": "1", "s2/nsp/one.py": "2"}, "nsp"),
    "ns-nested-both": ({"s1/nsp/nested/a.py": "1", "s2/nsp/nested/b.py": "2"}, "nsp"),
    "ns-deep-2nd": ({"s1/nsp/one.py": "2", "s2/nsp/n1/n2/deep.py": "1"}, "nsp"),
    "ns-regular-sub": ({"s1/nsp/one.py": "2", "s2/nsp/reg/__init__.py": "I", "s2/nsp/reg/m.py": "1"}, "nsp"),
    # portions whose directories do not come in alphabetical order on the search path (the order of the portions IS the order of the search path)
    "ns-reversed-paths": ({"s1/nsp/one.py": "2", "s2/nsp/two.py": "1"}, "nsp", ["s2", "s1"]),
    "ns-three-portions": ({"s1/nsp/one.py": "2", "s2/nsp/two.py": "1", "s0/nsp/zero.py": "2"}, "nsp", ["s1", "s2", "s0"]),
    # wildcard imports that do not run: type-guarded in the package's __init__, or written in the stub of the __init__ only
    "pkg-guarded-wildcard": ({"s1/pkg/__init__.py": "G", "s1/pkg/sub.py": "1"}, "pkg"),
    "stub-wildcard": ({"s1/pkg/__init__.py": "i", "s1/pkg/__init__.pyi": "W", "s1/pkg/sub.py": "1"}, "pkg"),
    # a name imported through a re-export chain (user -> package __init__ -> private module) and used in annotations, defaults, values and bases
    "pkg-reexport-chain": ({"s1/pkg/__init__.py": "R", "s1/pkg/_impl.py": "T", "s1/pkg/user.py": "U", "s1/pkg/m.py": "1"}, "pkg"),
    "pkg-nested": ({"s1/pkg/__init__.py": "I", "s1/pkg/sub/__init__.py": "i", "s1/pkg/sub/deep.py": "1", "s1/pkg/two.py": "2"}, "pkg"),
    "pkg-2nd-path": ({"s1/other.py": "2", "s2/pkg/__init__.py": "i", "s2/pkg/m.py": "1"}, "pkg"),
    "stub-beside": ({"s1/mod.py": "1", "s1/mod.pyi": "1"}, "mod"),
    "stubs-package-stub-only-module": ({"s1/pkg/__init__.py": "i", "s1/pkg/m.py": "2", "s2/pkg-stubs/__init__.pyi": "i", "s2/pkg-stubs/only.pyi": "1"}, "pkg"),
    "stubs-package": ({"s1/pkg/__init__.py": "i", "s1/pkg/m.py": "1", "s2/pkg-stubs/__init__.pyi": "i", "s2/pkg-stubs/m.pyi": "1"}, "pkg"),
}
BUILTINS = ["math", "itertools", "errno", "_bisect", "atexit"]


def source_for(f1, f2):
    parts = []
    feats = [f for f in (f1, f2) if f]
    # a module docstring must come first
    feats.sort(key=lambda f: f != "module-doc")
    for f in feats:
        parts.append(FEATURES.get(f) or EXPR_FEATURES[f])
    return "".join(parts)


def files_for(container, f1, f2):
    """-> (files, top-level name, search path sub-dirs)"""
    if container == "module":
        return {"s1/mod.py": source_for(f1, f2)}, "mod", ["s1"]
    if container == "package":
        init = source_for(f1, None) + "from .sub import *\nfrom pkg import sub as sub_alias\n"
        if f1 == "module-doc":
            init = source_for(f1, None) + "from .sub import *\n"
        return {"s1/pkg/__init__.py": init, "s1/pkg/sub.py": source_for(f2, None) if f2 else "subv = 1\n"}, "pkg", ["s1"]
    if container == "namespace":
        return {"s1/nsp/one.py": source_for(f1, None), "s2/nsp/two.py": source_for(f2, None) if f2 else "twov = 1\n"}, "nsp", ["s1", "s2"]
    if container in LAYOUTS:
        src1, src2 = source_for(f1, None), (source_for(f2, None) if f2 else "twov = 1\n")
        files = {k: {"1": src1, "2": src2, "i": "", "I": '"""Init doc."""\nfrom . import *\n',
                     "G": "from typing import TYPE_CHECKING\nif TYPE_CHECKING:\n    from .sub import *\n    class GuardedClass:\n        def gm(self): ...\n    def guarded_func(): ...\n    guarded_attr: int = 0\n",
                     "W": "from .sub import *\n",
                     "R": "from pkg._impl import Thing\nfrom pkg._impl import make as build\n", "T": "class Thing:\n    tv = 1\ndef make(a=1):\n    return Thing()\n",
                     "U": "from pkg import Thing, build\nfrom pkg import Thing as Renamed\nuv: Thing = build()\ndef uf(p: Thing = Renamed, q=build) -> Renamed: ...\nclass UC(Thing):\n    ua: Renamed = build(a=2)\n"}[v] for k, v in LAYOUTS[container][0].items()}
        return files, LAYOUTS[container][1], (LAYOUTS[container][2] if len(LAYOUTS[container]) > 2 else ["s1", "s2"])
    raise AssertionError(container)


def cases(tier):
    """(container, f1, f2, agent)"""
    for container in CONTAINERS:
        for f1 in BASE:
            yield (container, f1, None, "static")
            yield (container, f1, None, "inspect")
        for f1, f2 in itertools.permutations(BASE, 2):
            if container == "module" and f1 > f2:
                continue
            yield (container, f1, f2, "static")
            if tier == "thorough" or container != "namespace":
                yield (container, f1, f2, "inspect")
    for layout in LAYOUTS:
        for f1 in BASE:
            yield (layout, f1, None, "static")
            if not layout.startswith("stub"):
                yield (layout, f1, None, "inspect")
    for f in EXPR_FEATURES:
        yield ("module", f, None, "static")
        if tier == "thorough":
            yield ("package", "class", f, "static")
    for b in BUILTINS:
        yield ("builtin", b, None, "inspect")
