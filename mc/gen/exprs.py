"""Exhaustive generator of Python expressions from templates, closed under taking sub-expressions.

A tree is a leaf string, or (template index, (child, ...)).  Text is composed with every child wrapped in
parentheses and then normalised through ast.unparse(ast.parse(...)), so the intended structure is guaranteed
and the final text carries exactly the parentheses Python needs.
"""
from __future__ import annotations

import ast

BINOPS = [("Add", "+"), ("Sub", "-"), ("Mult", "*"), ("Div", "/"), ("FloorDiv", "//"), ("Mod", "%"), ("Pow", "**"),
          ("MatMult", "@"), ("LShift", "<<"), ("RShift", ">>"), ("BitOr", "|"), ("BitXor", "^"), ("BitAnd", "&")]
CMPOPS = [("Eq", "=="), ("NotEq", "!="), ("Lt", "<"), ("LtE", "<="), ("Gt", ">"), ("GtE", ">="), ("Is", "is"), ("IsNot", "is not"),
          ("In", "in"), ("NotIn", "not in")]

# (name, node class, slot names, format)
TEMPLATES: list[tuple[str, str, tuple[str, ...], str]] = []


def _t(name, cls, slots, fmt):
    TEMPLATES.append((name, cls, tuple(slots), fmt))


_t("Attribute", "Attribute", ["value"], "{0}.attr")
for n, o in BINOPS:
    _t(f"BinOp[{o}]", "BinOp", ["left", "right"], "{0} " + o + " {1}")
_t("BoolOp[and]", "BoolOp", ["values0", "values1"], "{0} and {1}")
_t("BoolOp[or]", "BoolOp", ["values0", "values1"], "{0} or {1}")
_t("Call()", "Call", ["func"], "{0}()")
_t("Call(arg)", "Call", ["func", "args0"], "{0}({1})")
_t("Call(kw)", "Call", ["func", "keyword"], "{0}(k={1})")
_t("Call(*)", "Call", ["func", "starred"], "{0}(*{1})")
_t("Call(**)", "Call", ["func", "varkeyword"], "{0}(**{1})")
_t("Call(arg,kw)", "Call", ["func", "args0", "keyword"], "{0}({1}, k={2})")
for n, o in CMPOPS:
    _t(f"Compare[{o}]", "Compare", ["left", "comparator"], "{0} " + o + " {1}")
_t("Compare[chain]", "Compare", ["left", "comparator0", "comparator1"], "{0} < {1} <= {2}")
_t("ListComp", "ListComp", ["elt", "iter"], "[{0} for t in {1}]")
_t("ListComp[if]", "ListComp", ["elt", "iter", "if"], "[{0} for t in {1} if {2}]")
_t("ListComp[2for]", "ListComp", ["elt", "iter0", "iter1"], "[{0} for t in {1} for u in {2}]")
_t("ListComp[async]", "ListComp", ["elt", "iter"], "[{0} async for t in {1}]")
_t("ListComp[tuple-target]", "ListComp", ["elt", "iter"], "[{0} for t, u in {1}]")
_t("SetComp", "SetComp", ["elt", "iter"], "{{{0} for t in {1}}}")
_t("GeneratorExp", "GeneratorExp", ["elt", "iter"], "({0} for t in {1})")
_t("DictComp", "DictComp", ["key", "value", "iter"], "{{{0}: {1} for t in {2}}}")
_t("Dict", "Dict", ["key", "value"], "{{{0}: {1}}}")
_t("Dict[**]", "Dict", ["unpacked"], "{{**{0}}}")
_t("Dict[kv,**]", "Dict", ["key", "value", "unpacked"], "{{{0}: {1}, **{2}}}")
_t("Dict[empty]", "Dict", [], "{{}}")
_t("JoinedStr", "JoinedStr", ["value"], "f'x{{{0}}}y'")
_t("JoinedStr[!r]", "JoinedStr", ["value"], "f'{{{0}!r}}'")
_t("JoinedStr[spec]", "JoinedStr", ["value"], "f'{{{0}:>5}}'")
_t("JoinedStr[nested-spec]", "JoinedStr", ["value", "spec"], "f'{{{0}:{{{1}}}}}'")
_t("JoinedStr[two]", "JoinedStr", ["value0", "value1"], "f'{{{0}}}{{{1}}}'")
_t("IfExp", "IfExp", ["body", "test", "orelse"], "{0} if {1} else {2}")
_t("Lambda", "Lambda", ["body"], "lambda: {0}")
_t("Lambda[params]", "Lambda", ["body"], "lambda p, q=1: {0}")
_t("Lambda[default]", "Lambda", ["default"], "lambda p={0}: p")
# every marker directly after the `/` of positional-only parameters, and the bare `*`
_t("Lambda[/,*a]", "Lambda", ["body"], "lambda p, /, *r: {0}")
_t("Lambda[/,*,k]", "Lambda", ["body"], "lambda p, /, *, k: {0}")
_t("Lambda[/,**k]", "Lambda", ["body"], "lambda p, /, **k: {0}")
_t("Lambda[*,k=]", "Lambda", ["default"], "lambda *, k={0}: k")
_t("Lambda[all]", "Lambda", ["body"], "lambda p, q=1, /, r=2, *s, k, l=3, **m: {0}")
_t("List", "List", ["elt"], "[{0}]")
_t("List[2]", "List", ["elt0", "elt1"], "[{0}, {1}]")
_t("List[empty]", "List", [], "[]")
_t("List[*]", "List", ["starred"], "[*{0}]")
_t("Set", "Set", ["elt"], "{{{0}}}")
_t("Set[2]", "Set", ["elt0", "elt1"], "{{{0}, {1}}}")
_t("Tuple[1]", "Tuple", ["elt"], "({0},)")
_t("Tuple[2]", "Tuple", ["elt0", "elt1"], "({0}, {1})")
_t("Tuple[empty]", "Tuple", [], "()")
_t("Tuple[*]", "Tuple", ["starred"], "(*{0},)")
_t("NamedExpr", "NamedExpr", ["value"], "(t := {0})")
_t("Subscript", "Subscript", ["value", "slice"], "{0}[{1}]")
_t("Subscript[tuple]", "Subscript", ["value", "slice0", "slice1"], "{0}[{1}, {2}]")
_t("Subscript[l:u]", "Subscript", ["value", "lower", "upper"], "{0}[{1}:{2}]")
_t("Subscript[l:u:s]", "Subscript", ["value", "lower", "upper", "step"], "{0}[{1}:{2}:{3}]")
_t("Subscript[:]", "Subscript", ["value"], "{0}[:]")
_t("Subscript[l:]", "Subscript", ["value", "lower"], "{0}[{1}:]")
_t("Subscript[:u]", "Subscript", ["value", "upper"], "{0}[:{1}]")
_t("Subscript[::s]", "Subscript", ["value", "step"], "{0}[::{1}]")
_t("Subscript[i,l:u]", "Subscript", ["value", "slice0", "lower", "upper"], "{0}[{1}, {2}:{3}]")
_t("Subscript[()]", "Subscript", ["value"], "{0}[()]")
_t("Subscript[(x,)]", "Subscript", ["value", "elt"], "{0}[({1},)]")
_t("Subscript[*]", "Subscript", ["value", "starred"], "{0}[*{1}]")
_t("UnaryOp[-]", "UnaryOp", ["operand"], "-{0}")
_t("UnaryOp[+]", "UnaryOp", ["operand"], "+{0}")
_t("UnaryOp[~]", "UnaryOp", ["operand"], "~{0}")
_t("UnaryOp[not]", "UnaryOp", ["operand"], "not {0}")
_t("Yield", "Yield", ["value"], "(yield {0})")
_t("Yield[bare]", "Yield", [], "(yield)")
_t("YieldFrom", "YieldFrom", ["value"], "(yield from {0})")
_t("Await", "Await", ["value"], "(await {0})")  # not mapped by Griffe: the whole expression must be dropped, never mangled

INDEX = {t[0]: i for i, t in enumerate(TEMPLATES)}
NAME_LEAVES = ["a", "b", "c", "d"]
OTHER_LEAVES = ["b.c", "0", "'s'"]
LITERALS = ["1.5", "1j", "True", "None", "...", "b'x'", "'q\"t'", "1000000", "0x10", "''", "'it''s'", "-1"]

# grouping/precedence-sensitive subset explored one level deeper in the thorough tier
SENSITIVE = ["Attribute", "BinOp[+]", "BinOp[*]", "BinOp[**]", "BinOp[-]", "BinOp[|]", "BoolOp[and]", "BoolOp[or]", "Call(arg)", "Call(*)", "Call(kw)",
             "Compare[<]", "Compare[in]", "Compare[chain]", "IfExp", "Lambda[params]", "NamedExpr", "Subscript", "Subscript[tuple]", "Subscript[l:u]",
             "Tuple[1]", "Tuple[2]", "Tuple[*]", "List[*]", "UnaryOp[-]", "UnaryOp[not]", "ListComp", "ListComp[if]", "GeneratorExp", "DictComp", "Dict",
             "Dict[**]", "Yield", "JoinedStr", "Set"]


def is_leaf(t) -> bool:
    return isinstance(t, str)


def raw_text(tree) -> str:
    if is_leaf(tree):
        return tree
    ti, kids = tree
    return TEMPLATES[ti][3].format(*["(" + raw_text(k) + ")" for k in kids])


def text(tree) -> str:
    return ast.unparse(ast.parse(raw_text(tree), mode="eval").body)


def node_of(tree) -> ast.AST:
    return ast.parse(raw_text(tree), mode="eval").body


def cls_of(tree) -> str:
    if is_leaf(tree):
        return "leaf"
    return TEMPLATES[tree[0]][1]


def name_of(tree) -> str:
    if is_leaf(tree):
        return "leaf"
    return TEMPLATES[tree[0]][0]


def depth1(ti, leaves=NAME_LEAVES):
    n = len(TEMPLATES[ti][2])
    return (ti, tuple(leaves[:n]))


def replace_child(tree, i, new):
    ti, kids = tree
    return (ti, kids[:i] + (new,) + kids[i + 1:])


def size(tree) -> int:
    if is_leaf(tree):
        return 1
    return 1 + sum(size(k) for k in tree[1])


def enumerate_trees(tier):
    """Simplest first.  quick: depth <= 2; thorough: + depth 3 over SENSITIVE."""
    n_t = len(TEMPLATES)
    # depth 0: leaves and literals
    for leaf in NAME_LEAVES[:1] + OTHER_LEAVES + LITERALS:
        yield leaf
    # depth 1: every template with name leaves; then each slot with each other leaf kind
    d1 = [depth1(ti) for ti in range(n_t)]
    for t in d1:
        yield t
    for t in d1:
        for i in range(len(t[1])):
            for leaf in OTHER_LEAVES:
                yield replace_child(t, i, leaf)
    # depth 2: every (parent, slot, child template)
    for t in d1:
        for i in range(len(t[1])):
            for c in d1:
                yield replace_child(t, i, c)
    # depth-3 chains aimed at builder flags that are forwarded downwards (in_subscript, in_joined_str, ...):
    # subscript / f-string roots, any node in the middle, a tuple or string constant at the bottom
    roots = [depth1(INDEX[n]) for n in ("Subscript", "Subscript[tuple]", "JoinedStr")]
    bottoms = [depth1(INDEX[n]) for n in ("Tuple[1]", "Tuple[2]", "Tuple[*]")] + ["'s'"]
    for t in roots:
        for i in range(len(t[1])):
            for m in d1:
                for j in range(len(m[1])):
                    for c in bottoms:
                        yield replace_child(t, i, replace_child(m, j, c))
    if tier == "thorough":
        sens = [depth1(INDEX[n]) for n in SENSITIVE]
        for t in sens:
            for i in range(len(t[1])):
                for m in sens:
                    for j in range(len(m[1])):
                        for c in sens:
                            yield replace_child(t, i, replace_child(m, j, c))
        # two non-leaf children at once (sibling interactions), over the sensitive subset
        for t in sens:
            if len(t[1]) >= 2:
                for c0 in sens:
                    for c1 in sens:
                        yield replace_child(replace_child(t, 0, c0), 1, c1)
