#!/venv/bin/python
"""Entry point: /venv/bin/python -B mc/run.py <Cxx> --tier quick|thorough [--replay FILE] [--jobs N]"""
import os
import sys

sys.dont_write_bytecode = True
sys.path.insert(0, os.path.dirname(os.path.dirname(os.path.abspath(__file__))))

from mc.core import driver  # noqa: E402

if __name__ == "__main__":
    sys.exit(driver.main(sys.argv[1:]))
