"""C13 — Well-formed docstrings parse back to the structure that was written.

Model: an ordered list of sections, each an *instance* from a menu (per kind: items with/without annotation, with one-line /
two-line / two-paragraph descriptions, titles, default values).  Three renderers emit the documented well-formed syntax
(docs/reference/docstrings.md); parsing must return the model: same kinds in written order (Google, Numpy), same names,
annotations, defaults, descriptions, titles; omitted annotations/defaults come from the documented object's signature; every
description string ends up in exactly the item it was written for (no leakage across boundaries).
Space: all lists of <= 2 (quick) / 3 (thorough) distinct-kind section instances x with/without a leading summary, per style,
x the documented option variants that prescribe a different syntax.
"""
from __future__ import annotations

import itertools
import json
from pathlib import Path

from mc.core import boot
from mc.core.driver import Acc

PROPERTY = "C13"
LEVEL = "exploration"
NSHARDS = 32
RULE = (
    "all ordered lists of distinct-kind section instances up to the length bound, with and without summary, per style and option variant; "
    "non-trivial = the list has >= 2 sections (so a boundary between sections exists) or an item with a multi-line description; distinct by construction"
)
ASSUMPTIONS = ["'well-formed' is the syntax documented in docs/reference/docstrings.md as rendered by mc/checks/c13.py", "Sphinx: continuation lines are joined with a space and sections come back in the parser's fixed order (the property only promises written order for Google and Numpy)"]
MANIFEST = {
    "category": "exploration",
    "text": "Bounded exhaustive enumeration of section lists (<= 2 quick / <= 3 thorough sections from a menu of ~45 instances covering every section kind, item shape and description shape) rendered in Google, Numpy and Sphinx syntax and parsed by the real parsers under each documented option variant; the parse must equal the model exactly (no stripping). Small dedicated families: Sphinx type fields before/after their item and a parameter and an attribute of one name in all 24 field orders, property parents (summary type, Returns without written types). A signature-shapes family documents functions and classes with full signatures containing type parameters, nested brackets, slices, lambdas and dict displays (Google and Numpy). Three-item sections run on their own; a type-spellings family spreads tuples spelled tuple / Tuple / typing.Tuple / Tuple through a star import over un-annotated items and checks the operand order of unions and dotted chains, written or taken from the signature.",
    "note": "The renderers are hand-written from the documentation; complete for the instance menu and list length stated.",
    "technique": "model checking by exhaustive small-scope enumeration of section lists with render-parse round trip on the real parsers",
}

PARENT_SRC = '''
from typing import Iterator, Generator
def f(x: int, y: str = "a", *args: bytes, **kw: float) -> bool: ...
def t(x: int, y: str = "a") -> tuple[int, str]: ...
def gen(x: int, y: str = "a") -> Generator[int, str, bool]: ...
def gent(x: int, y: str = "a") -> Generator[tuple[int, str], tuple[int, str], tuple[int, str]]: ...
class K:
    a: int = 0
    b: str
    def __init__(self, x: int, y: str = "a"): ...
    @property
    def p(self) -> bytes: ...
    @property
    def pt(self) -> tuple[int, str]: ...
class K2:
    x: float = 0.0
    def __init__(self, x: complex): ...
'''
SIG_ANN = {"x": "int", "y": "str", "*args": "bytes", "**kw": "float"}
SIG_DEFAULT = {"y": "'a'", "*args": "()", "**kw": "{}"}
ATTR_ANN = {"a": "int", "b": "str"}

D1 = [["Desc one."]]
D2 = [["Desc one.", "line two."]]
D3 = [["Para one."], ["para two."]]
D5 = [["The count (see `limit`): never negative."]]  # a description that contains "): "
D4 = [["Desc one.", ":class:`Item` role first on the line.", "``:param x:`` quoted field syntax."]]  # continuation lines that begin with a colon


def _item(name=None, ann=None, desc=D1, default=None, sig=None):
    return {"name": name, "annotation": ann, "desc": desc, "default": default, "sig": sig}


# kind -> list of instances; an instance is {"kind", "items" | "text" | ..., "styles"}
def menu():
    m = []

    def add(kind, styles="gns", **kw):
        m.append({"kind": kind, "styles": styles, **kw})

    add("text", text=[["Some text."]])
    add("text", text=[["Para A line."], ["Para B line."]])
    for kind in ("parameters", "other parameters"):
        st = "gns" if kind == "parameters" else "gn"
        add(kind, st, items=[_item("x", "int")])
        add(kind, st, items=[_item("x", "list[int]", D2), _item("y", None)])
        add(kind, "gn", items=[_item("x", None, D3)])
        add(kind, "n", items=[_item("x", "int", D1, default="3")])
        add(kind, st, items=[_item("x", "int", D4), _item("y", "str")])
        # a default (written, or taken from the signature) followed by an item that has none: nothing may carry over to the next item
        add(kind, "n", items=[_item("y", "str", D1, default="'b'"), _item("x", None)])
        add(kind, "gn", items=[_item("y", None), _item("x", None, D2), _item("*args", None), _item("**kw", None)])  # (variadic parameters, documented with their stars)
        # a name the signature does not have (a key of **kw) after a typed item: neither annotation nor default may come from anywhere
        # (the name is a non-ASCII identifier)
        # (... written right after an item whose default comes from the signature: nothing carries over to a name the signature does not have)
        add(kind, "gn", items=[_item("y", None), _item("größe", None), _item("x", "int")])
    add("attributes", "gns", items=[_item("a", "int")])
    add("attributes", "gns", items=[_item("a", "list[int]"), _item("b", "bytes", D2)])  # written types that differ from the class body's annotations
    add("attributes", "gn", items=[_item("a", None, D2), _item("b", "str", D3)])
    add("attributes", "gn", items=[_item("b", "str"), _item("zß", "float"), _item("a", None)])  # zz: not an attribute of the parent
    for kind in ("returns", "yields", "receives"):
        add(kind, "gn", items=[_item("r", "int | None")])  # (types that contain spaces)
        add(kind, "gn", items=[_item("", "str", D2), _item("ré", "dict[str, int]")])
    for kind in ("returns", "yields", "receives"):
        add(kind, "gn", items=[_item("r", "int", D5)])
    add("parameters", "gns", items=[_item("x", "int", D5)])
    add("functions", "gn", items=[_item("g", None, D5, sig="g(a: int, b=(1, 2)) -> dict[str, int]")])
    add("classes", "gn", items=[_item("C", None, D1, sig="C(a: int = 0)")])
    add("returns", "s", items=[_item("", "int")])
    add("returns", "gn", items=[_item("r", None)])
    # un-annotated items under a parent returning a tuple: one item takes the whole annotation, several take one element each
    add("returns", "gn", items=[_item("r", None)], parent="tuple")
    add("returns", "gn", items=[_item("r", None, D2), _item("s", None)], parent="tuple")
    # un-annotated items under generator parents: the slot of Generator[yield, receive, return] that the section documents
    for kind in ("returns", "yields", "receives"):
        add(kind, "gn", items=[_item("r", None)], parent="gen")
        add(kind, "gn", items=[_item("r", None, D2), _item("s", None)], parent="gen-tuples")
        add(kind, "gn", items=[_item("r", None)], parent="gen-tuples")  # a single item takes the whole tuple
    for kind in ("raises", "warns"):
        st = "gns" if kind == "raises" else "gn"
        add(kind, st, items=[_item(None, "ValueError")])
        add(kind, "gn", items=[_item(None, "ValueError", D2), _item(None, "KeyError", D3)])
    add("functions", "gn", items=[_item("g", None, D1, sig="g(a, b)")])
    add("classes", "gn", items=[_item("C", None, D2, sig="C(a)")])
    add("modules", "gn", items=[_item("sub", None)])
    add("examples", "gn", blocks=[("text", ["Prose here."]), ("examples", [">>> f(1)", "True"])])
    add("examples", "gn", blocks=[("examples", [">>> f(2)  # doctest: +SKIP", "2", ">>> print('a\\n\\nb')", "a", "<BLANKLINE>", "b"])])
    # three items in one section (what is carried from one item to the next, or counted, shows with a first, a middle and a last one): on their own only
    for kind in ("parameters", "other parameters", "attributes"):
        add(kind, "gns" if kind != "other parameters" else "gn", items=[_item("x", "int"), _item("y", None, D2), _item("z", "str", D3)], solo=True)
        add(kind, "gn", items=[_item("x", None, D3), _item("y", "list[int]"), _item("z", None, D2)], solo=True)
    for kind in ("returns", "yields", "receives"):
        add(kind, "gn", items=[_item("r", "int"), _item("s", "str", D2), _item("t", "float", D3)], solo=True)
    for kind in ("raises", "warns"):
        add(kind, "gns" if kind == "raises" else "gn", items=[_item(None, "ValueError"), _item(None, "KeyError", D2), _item(None, "OSError", D3)], solo=True)
    add("functions", "gn", items=[_item("g", None, D1, sig="g(a, b)"), _item("h", None, D2, sig="h(x: int) -> int"), _item("k", None, D3, sig="k()")], solo=True)
    add("classes", "gn", items=[_item("C", None, D2, sig="C(a)"), _item("D", None, D1, sig="D(b: int = 0)"), _item("E", None, D3, sig="E()")], solo=True)
    add("modules", "gn", items=[_item("sub", None), _item("sub2", None, D2), _item("sub3", None, D3)], solo=True)
    add("admonition", "gn", adm=("note", None, [["Admonition text."]]))
    add("admonition", "g", adm=("note", "Custom title", [["Titled one."], ["titled two."]]))
    add("deprecated", "n", dep=("1.0", [["Dep text."]]))
    return m


MENU = menu()
_MAXL = {"quick": 3, "thorough": 4}


def bounds(tier):
    return {"menu_instances": len(MENU), "max_sections": _MAXL[tier], "styles": ["google", "numpy", "sphinx"],
            "option_variants": {"google": ["default", "returns_named_value=False", "returns_multiple_items=False", "trim_doctest_flags=False"],
                                "numpy": ["default", "trim_doctest_flags=False"], "sphinx": ["default"]}}


STYLE_LETTER = {"google": "g", "numpy": "n", "sphinx": "s"}
VARIANTS = {
    "google": [{}, {"returns_named_value": False, "receives_named_value": False}, {"returns_multiple_items": False, "receives_multiple_items": False}, {"trim_doctest_flags": False}],
    "numpy": [{}, {"trim_doctest_flags": False}],
    # "_types": where a type is written as a field of its own (render-only, not a parser option): `:type x:` / `:vartype v:` after or before the
    # `:param x:` / `:var v:` it belongs to, under parents whose signature / class body carries (other) annotations
    "sphinx": [{}, {"_types": "after"}, {"_types": "before"}],
}


def cases(tier):
    for style in ("google", "numpy", "sphinx"):
        idx = [i for i, inst in enumerate(MENU) if STYLE_LETTER[style] in inst["styles"]]
        for n in range(1, _MAXL[tier] + 1):
            for combo in itertools.permutations(idx, n):
                kinds = [MENU[i]["kind"] for i in combo]
                if len(set(kinds)) != len(kinds):
                    continue
                if n > 1 and any(MENU[i].get("solo") for i in combo) and not (n == 2 and kinds[0] == "text" and combo[0] == 0):
                    continue  # (three-item instances: alone, or after the one-line free text)
                parents_wanted = {MENU[i].get("parent") for i in combo} - {None}
                if len(parents_wanted) > 1 or ("attributes" in kinds and parents_wanted):
                    continue  # one docstring has one parent
                if style != "google" and any(k == "text" and j > 0 for j, k in enumerate(kinds)):
                    # Numpy and Sphinx syntax have no way to end a section other than starting the next one:
                    # free text after a section is not expressible, hence not "well-formed"
                    continue
                for summary in (True, False):
                    if not summary and kinds[0] == "text":
                        continue
                    for vi in range(len(VARIANTS[style])):
                        yield (style, combo, summary, vi)


def shards(tier):
    return list(range(NSHARDS))


# -- renderers ------------------------------------------------------------------------------------------------------------


def _desc_lines(desc, indent, first_inline=True):
    """-> (first line text, following lines) for an item whose description starts on the item line."""
    paras = [list(p) for p in desc]
    flat = []
    for i, p in enumerate(paras):
        if i:
            flat.append("")
        flat.extend(p)
    first = flat[0]
    rest = [(indent + l) if l else "" for l in flat[1:]]
    return first, rest


def render_google(sections, opts):
    out = []
    named = opts.get("returns_named_value", True)
    multiple = opts.get("returns_multiple_items", True)
    for s in sections:
        k = s["kind"]
        if k == "text":
            for i, p in enumerate(s["text"]):
                if i:
                    out.append("")
                out.extend(p)
        elif k in ("parameters", "other parameters", "attributes", "modules"):
            out.append({"parameters": "Args:", "other parameters": "Other Parameters:", "attributes": "Attributes:", "modules": "Modules:"}[k])
            for it in s["items"]:
                first, rest = _desc_lines(it["desc"], "        ")
                ann = f" ({it['annotation']})" if it["annotation"] else ""
                out.append(f"    {it['name']}{ann}: {first}")
                out.extend(rest)
        elif k in ("returns", "yields", "receives"):
            out.append(k.capitalize() + ":")
            items = s["items"]
            if not multiple:
                items = items[:1]
            for it in items:
                first, rest = _desc_lines(it["desc"], "        " if multiple else "    ")
                if named:
                    head = ((it["name"] or "") + (f" ({it['annotation']})" if it["annotation"] else "")).strip()
                    out.append(f"    {head}: {first}" if head else f"    {first}")
                else:
                    out.append(f"    {it['annotation']}: {first}" if it["annotation"] else f"    {first}")
                out.extend(rest)
        elif k in ("raises", "warns"):
            out.append(k.capitalize() + ":")
            for it in s["items"]:
                first, rest = _desc_lines(it["desc"], "        ")
                out.append(f"    {it['annotation']}: {first}")
                out.extend(rest)
        elif k in ("functions", "classes"):
            out.append(k.capitalize() + ":")
            for it in s["items"]:
                first, rest = _desc_lines(it["desc"], "        ")
                out.append(f"    {it['sig']}: {first}")
                out.extend(rest)
        elif k == "examples":
            out.append("Examples:")
            for i, (bk, lines) in enumerate(s["blocks"]):
                if i:
                    out.append("")
                out.extend("    " + l for l in lines)
        elif k == "admonition":
            akind, title, desc = s["adm"]
            out.append(f"{akind.capitalize()}: {title}" if title else f"{akind.capitalize()}:")
            for i, p in enumerate(desc):
                if i:
                    out.append("")
                out.extend("    " + l for l in p)
        elif k == "deprecated":
            version, desc = s["dep"]
            out.append("Deprecated:")
            first, rest = _desc_lines(desc, "        ")
            out.append(f"    {version}: {first}")
            out.extend(rest)
        out.append("")
    return "\n".join(out).rstrip("\n")


def render_numpy(sections, opts):
    out = []
    for s in sections:
        k = s["kind"]

        def header(t):
            out.append(t)
            out.append("-" * len(t))

        def body(desc):
            for i, p in enumerate(desc):
                if i:
                    out.append("")
                out.extend("    " + l for l in p)

        if k == "text":
            for i, p in enumerate(s["text"]):
                if i:
                    out.append("")
                out.extend(p)
        elif k in ("parameters", "other parameters", "attributes"):
            header({"parameters": "Parameters", "other parameters": "Other Parameters", "attributes": "Attributes"}[k])
            for it in s["items"]:
                line = it["name"]
                if it["annotation"]:
                    line += f" : {it['annotation']}"
                    if it["default"]:
                        line += f", default {it['default']}"
                out.append(line)
                body(it["desc"])
        elif k in ("returns", "yields", "receives"):
            header(k.capitalize())
            for it in s["items"]:
                if it["name"] and it["annotation"]:
                    out.append(f"{it['name']} : {it['annotation']}")
                elif it["name"]:
                    out.append(f"{it['name']} :")
                else:
                    out.append(it["annotation"])
                body(it["desc"])
        elif k in ("raises", "warns"):
            header(k.capitalize())
            for it in s["items"]:
                out.append(it["annotation"])
                body(it["desc"])
        elif k in ("functions", "classes", "modules"):
            header(k.capitalize())
            for it in s["items"]:
                out.append(it["sig"] or it["name"])
                body(it["desc"])
        elif k == "examples":
            header("Examples")
            for i, (bk, lines) in enumerate(s["blocks"]):
                if i:
                    out.append("")
                out.extend(lines)
        elif k == "admonition":
            akind, title, desc = s["adm"]
            header("Notes")
            for i, p in enumerate(desc):
                if i:
                    out.append("")
                out.extend(p)
        elif k == "deprecated":
            version, desc = s["dep"]
            header("Deprecated")
            out.append(version)
            body(desc)
        out.append("")
    return "\n".join(out).rstrip("\n")


def render_sphinx(sections, opts):
    out = []
    for s in sections:
        k = s["kind"]
        if k == "text":
            for i, p in enumerate(s["text"]):
                if i:
                    out.append("")
                out.extend(p)
            out.append("")
        for it in s.get("items", []):
            flat = [l for p in it["desc"] for l in p]
            first, rest = flat[0], ["    " + l for l in flat[1:]]
            types = opts.get("_types")
            if k == "parameters":
                # default: the type is written inline.  (Inline AND as a field is "duplicate information", tests/test_docstrings/test_sphinx.py: never generated.)
                if types and it["annotation"]:
                    if types == "before":
                        out.append(f":type {it['name']}: {it['annotation']}")
                    out.append(f":param {it['name']}: {first}")
                    out.extend(rest)
                    if types == "after":
                        out.append(f":type {it['name']}: {it['annotation']}")
                else:
                    out.append(f":param {it['annotation']} {it['name']}: {first}" if it["annotation"] else f":param {it['name']}: {first}")
                    out.extend(rest)
            elif k == "attributes":
                if it["annotation"] and types == "before":
                    out.append(f":vartype {it['name']}: {it['annotation']}")
                out.append(f":var {it['name']}: {first}")
                out.extend(rest)
                if it["annotation"] and types != "before":
                    out.append(f":vartype {it['name']}: {it['annotation']}")
            elif k == "returns":
                out.append(f":returns: {first}")
                out.extend(rest)
                if it["annotation"]:
                    out.append(f":rtype: {it['annotation']}")
            elif k == "raises":
                out.append(f":raises {it['annotation']}: {first}")
                out.extend(rest)
    return "\n".join(out).rstrip("\n")


RENDER = {"google": render_google, "numpy": render_numpy, "sphinx": render_sphinx}


# -- expectation ----------------------------------------------------------------------------------------------------------------


def _join(desc, style):
    if style == "sphinx":
        return " ".join(l for p in desc for l in p)
    return "\n\n".join("\n".join(p) for p in desc)


def expected(sections, style, opts, parent_kind):
    exp = []
    named = opts.get("returns_named_value", True)
    multiple = opts.get("returns_multiple_items", True)
    trim = opts.get("trim_doctest_flags", True)
    for s in sections:
        k = s["kind"]
        if k == "text":
            exp.append({"kind": "text", "value": _join(s["text"], "google")})
        elif k in ("parameters", "other parameters"):
            items = []
            for it in s["items"]:
                in_sig = not it["name"].startswith("*") or parent_kind == "function"  # (only f takes *args / **kw; the other parents are plain (x, y) functions)
                d = {"name": it["name"], "annotation": it["annotation"] or (SIG_ANN.get(it["name"]) if in_sig else None), "description": _join(it["desc"], style)}
                val = it["default"] or (SIG_DEFAULT.get(it["name"]) if in_sig else None)
                if val is not None:
                    d["value"] = val
                items.append(d)
            exp.append({"kind": k, "value": items})
        elif k == "attributes":
            exp.append({"kind": k, "value": [{"name": it["name"], "annotation": it["annotation"] or (ATTR_ANN.get(it["name"]) if parent_kind == "class" and style != "sphinx" else None),
                                             "description": _join(it["desc"], style)} for it in s["items"]]})
        elif k in ("returns", "yields", "receives"):
            items = s["items"]
            if style == "google" and not multiple:
                items = items[:1]
            vals = []
            for it in items:
                name = it["name"] or ""
                ann = it["annotation"]
                if style == "google" and not named:
                    name = ""
                if ann is None and parent_kind == "gen":
                    ann = {"yields": "int", "receives": "str", "returns": "bool"}[k]
                elif ann is None and parent_kind == "gen-tuples":
                    ann = ("int", "str")[items.index(it)] if len(items) > 1 else "tuple[int, str]"
                elif ann is None and k == "returns" and parent_kind == "function":
                    ann = "bool"
                elif ann is None and k == "returns" and parent_kind == "function-tuple":
                    ann = ("int", "str")[items.index(it)] if len(items) > 1 else "tuple[int, str]"
                vals.append({"name": name, "annotation": ann, "description": _join(it["desc"], style)})
            exp.append({"kind": k, "value": vals})
        elif k in ("raises", "warns"):
            exp.append({"kind": k, "value": [{"annotation": it["annotation"], "description": _join(it["desc"], style)} for it in s["items"]]})
        elif k in ("functions", "classes"):
            exp.append({"kind": k, "value": [{"name": it["name"], "annotation": it["sig"], "description": _join(it["desc"], style)} for it in s["items"]]})
        elif k == "modules":
            exp.append({"kind": k, "value": [{"name": it["name"], "annotation": None, "description": _join(it["desc"], style)} for it in s["items"]]})
        elif k == "examples":
            blocks = []
            for bk, lines in s["blocks"]:
                ls = list(lines)
                if bk == "examples" and trim:
                    ls = [l.split("  # doctest:")[0] for l in ls]
                    ls = ["" if l.strip() == "<BLANKLINE>" else l for l in ls]
                blocks.append([bk, "\n".join(ls)])
            exp.append({"kind": k, "value": blocks})
        elif k == "admonition":
            akind, title, desc = s["adm"]
            exp.append({"kind": k, "value": {"annotation": akind, "description": _join(desc, style)}, "title": title or ("Notes" if style == "numpy" else akind.capitalize())})
        elif k == "deprecated":
            version, desc = s["dep"]
            exp.append({"kind": k, "value": {"annotation": version, "description": _join(desc, style)}})
    return exp


def _norm(sections, enc):
    out = []
    for s in sections:
        d = json.loads(json.dumps(s.as_dict(), cls=enc))

        def fix(o):
            if isinstance(o, dict):
                if "cls" in o and ("name" in o or "left" in o or "elements" in o or "values" in o):
                    return None  # replaced below
                return {k: fix(v) for k, v in o.items()}
            if isinstance(o, list):
                return [fix(v) for v in o]
            return o

        # annotations: use str() of the real object
        v = s.value
        if isinstance(v, list):
            vals = []
            for it in v:
                if isinstance(it, tuple):
                    vals.append([it[0].value if hasattr(it[0], "value") else it[0], it[1]])
                else:
                    dd = it.as_dict()
                    dd["annotation"] = None if dd.get("annotation") is None else str(dd["annotation"])
                    vals.append(dd)
            d["value"] = vals
        elif hasattr(v, "as_dict"):
            dd = v.as_dict()
            dd["annotation"] = None if dd.get("annotation") is None else str(dd["annotation"])
            d["value"] = dd
        if d["kind"] == "text" and not d["value"]:
            continue
        out.append(d)
    return out


_env: dict = {}


def _setup():
    if _env:
        return _env
    boot.boot()
    import griffe
    from _griffe.encoders import JSONEncoder

    mod = griffe.visit("m", filepath=Path("m.py"), code=PARENT_SRC)
    _env.update(griffe=griffe, mod=mod, enc=JSONEncoder)
    return _env


def run_case(env, acc, case):
    style, combo, summary, vi = case
    g = env["griffe"]
    opts = VARIANTS[style][vi]
    sections = [MENU[i] for i in combo]
    if summary:
        sections = [{"kind": "text", "text": [["Summary line."]]}] + sections
        if sections[1]["kind"] == "text":
            sections = [{"kind": "text", "text": [["Summary line."]] + sections[1]["text"]}] + sections[2:]
    wanted = next((s["parent"] for s in sections if s.get("parent")), None)
    parent_kind = "class" if any(s["kind"] == "attributes" for s in sections) else {"tuple": "function-tuple", "gen": "gen", "gen-tuples": "gen-tuples", None: "function"}[wanted]
    parent = env["mod"][{"class": "K", "function-tuple": "t", "gen": "gen", "gen-tuples": "gent", "function": "f"}[parent_kind]]
    text = RENDER[style](sections, opts)
    if not summary:
        # as in source code: the docstring opens with a line break, so that cleandoc keeps the items' indentation
        text = "\n" + text
    exp = expected(sections, style, opts, parent_kind)
    ds = g.Docstring(text, lineno=1, parent=parent)
    case_d = {"style": style, "sections": list(combo), "summary": summary, "variant": vi, "text": text}
    try:
        got = _norm(ds.parse(style, **{k: v for k, v in opts.items() if not k.startswith("_")}), env["enc"])
    except Exception as e:  # noqa: BLE001
        acc.violation(f"raise/{style}/{type(e).__name__}", f"{style} parser raised {e!r} on a well-formed docstring", case_d, None, size=len(text))
        acc.case(case_d, outcome=style + ":raise")
        return
    multi = any(len(it["desc"]) > 1 or len(it["desc"][0]) > 1 for s in sections for it in s.get("items", []))
    nontrivial = len(sections) >= 2 or multi
    if style == "sphinx":
        key = lambda d: d["kind"]  # noqa: E731
        got_c, exp_c = sorted(got, key=key), sorted(exp, key=key)
    else:
        got_c, exp_c = got, exp
    ok = got_c == exp_c
    acc.case({"style": style, "text": text}, outcome=f"{style}:{'ok' if ok else 'diff'}", nontrivial=nontrivial)
    acc.observe(got)
    if ok:
        return
    gk, ek = [d["kind"] for d in got_c], [d["kind"] for d in exp_c]
    optn = "any-options"
    if vi != 0:
        sub = Acc()
        run_case(env, sub, (style, combo, summary, 0))
        if not sub.violations:
            optn = ",".join(f"{k}={v}" for k, v in opts.items() if k.startswith(("returns", "trim", "_types")))
    if gk != ek:
        # which section boundary is responsible: first index where kinds diverge
        i = next((j for j, (a, b) in enumerate(zip(gk, ek)) if a != b), min(len(gk), len(ek)))
        prev = ek[i - 1] if i else "start"
        cur = ek[i] if i < len(ek) else "end"
        what = "order" if sorted(gk) == sorted(ek) else "sections"
        acc.violation(f"{what}/{style}/{prev}>{cur}/{optn}", f"{style}: parsed kinds {gk}, written {ek}", case_d, {"got": got, "expected": exp}, size=len(text))
        return
    for gd, ed in zip(got_c, exp_c):
        if gd == ed:
            continue
        k = ed["kind"]
        nxt = ek[ek.index(k) + 1] if ek.index(k) + 1 < len(ek) else "end"
        if isinstance(ed["value"], list) and isinstance(gd["value"], list) and len(ed["value"]) == len(gd["value"]) and ed["value"] and isinstance(ed["value"][0], dict):
            for gi, ei in zip(gd["value"], ed["value"]):
                for field in sorted(set(gi) | set(ei)):
                    if gi.get(field) != ei.get(field):
                        variant = "multi-para" if "\n\n" in str(ei.get("description", "")) else "multi-line" if "\n" in str(ei.get("description", "")) else "one-line"
                        last = "last-item" if ei is ed["value"][-1] else "inner-item"
                        leak = field == "description" and isinstance(gi.get(field), str) and isinstance(ei.get(field), str) and gi[field].strip() != ei[field].strip()
                        acc.violation(f"roundtrip/{style}/{k}/{field}/{variant}/{last}/{'followed-by-' + ('section' if nxt != 'end' else 'end')}/{optn}" + ("/content" if leak else ""),
                                      f"{style} {k}: {field} parsed as {gi.get(field)!r}, written {ei.get(field)!r}", case_d, {"got": gd, "expected": ed}, size=len(text))
        else:
            field = "title" if gd.get("title") != ed.get("title") and gd["value"] == ed["value"] else "value"
            acc.violation(f"roundtrip/{style}/{k}/{field}/{'followed-by-' + ('section' if nxt != 'end' else 'end')}/{optn}", f"{style} {k}: parsed {gd!r}, written {ed!r}", case_d, {"got": gd, "expected": ed}, size=len(text))


def _run_property_summary(env, acc):
    """Google, option returns_type_in_property_summary, on a property: `<type>: <summary>` documents the returned type; the rest is the free text."""
    g = env["griffe"]
    prop = env["mod"]["K.p"]
    for ann in ("int", "list[int]", "dict[str, int]", None):
        for body in ([["Summary of the property."]], [["Summary of the property."], ["Longer text."]], [["Summary of the property.", "second line."]]):
            for tail in (None, "Raises:\n    ValueError: Desc one."):
                for lead in ("", "\n"):
                    written = "\n\n".join("\n".join(p) for p in body)
                    text = lead + (f"{ann}: " if ann else "") + written + (f"\n\n{tail}" if tail else "")
                    case_d = {"style": "google", "family": "property-summary", "text": text}
                    ds = g.Docstring(text, lineno=1, parent=prop)
                    try:
                        got = _norm(ds.parse("google", returns_type_in_property_summary=True), env["enc"])
                    except Exception as e:  # noqa: BLE001
                        acc.violation(f"raise/google/{type(e).__name__}/property-summary", f"google parser raised {e!r}", case_d, None, size=len(text))
                        continue
                    exp = [{"kind": "text", "value": written}]
                    if tail:
                        exp.append({"kind": "raises", "value": [{"annotation": "ValueError", "description": "Desc one."}]})
                    if ann:
                        exp.append({"kind": "returns", "value": [{"name": "", "annotation": ann, "description": ""}]})
                    ok = got == exp
                    acc.case(case_d, outcome=f"google:{'ok' if ok else 'diff'}", nontrivial=True)
                    acc.observe(got)
                    if not ok:
                        which = next((e["kind"] for e, g2 in zip(exp, got + [{}] * len(exp)) if e != g2), "sections")
                        acc.violation(f"roundtrip/google/property-summary/{which}/{'typed' if ann else 'untyped'}", f"google, returns_type_in_property_summary: parsed {got!r}, written {exp!r}", case_d,
                                      {"got": got, "expected": exp}, size=len(text))


def _run_sphinx_field_orders(env, acc):
    """Sphinx: a parameter and an attribute of the same name, each with its own type field, in every order of the four fields, under a class that annotates both differently."""
    g = env["griffe"]
    fields = {"P": ":param x: Desc one.", "V": ":var x: Desc two.", "TP": ":type x: list[int]", "TV": ":vartype x: bytes"}
    for parent_name in ("K2", None):
        for perm in itertools.permutations(fields):
            text = "Summary line.\n\n" + "\n".join(fields[f] for f in perm)
            case_d = {"style": "sphinx", "family": "sphinx-field-orders", "text": text, "parent": parent_name}
            ds = g.Docstring(text, lineno=1, parent=env["mod"][parent_name] if parent_name else None)
            try:
                got = _norm(ds.parse("sphinx"), env["enc"])
            except Exception as e:  # noqa: BLE001
                acc.violation(f"raise/sphinx/{type(e).__name__}/field-orders", f"sphinx parser raised {e!r}", case_d, None, size=len(text))
                continue
            exp = sorted([{"kind": "text", "value": "Summary line."},
                          {"kind": "parameters", "value": [{"name": "x", "annotation": "list[int]", "description": "Desc one."}]},
                          {"kind": "attributes", "value": [{"name": "x", "annotation": "bytes", "description": "Desc two."}]}], key=lambda d: d["kind"])
            got_c = sorted(got, key=lambda d: d["kind"])
            ok = got_c == exp
            acc.case(case_d, outcome=f"sphinx:{'ok' if ok else 'diff'}", nontrivial=True)
            acc.observe(got)
            if not ok:
                which = next((e["kind"] for e, g2 in zip(exp, got_c + [{}] * len(exp)) if e != g2), "sections")
                first = "type-first" if perm.index("TP" if which == "parameters" else "TV") < perm.index("P" if which == "parameters" else "V") else "type-after"
                acc.violation(f"roundtrip/sphinx/field-orders/{which}/{first}/{'annotated-parent' if parent_name else 'no-parent'}", f"sphinx, fields in the order {perm}: parsed {got_c!r}, written {exp!r}", case_d,
                              {"got": got, "expected": exp}, size=len(text))


def _run_property_returns(env, acc):
    """Returns sections without written types in the docstring of a PROPERTY: the type comes from the property's annotation (one item: all of it; several: one tuple element each)."""
    g = env["griffe"]
    for style in ("google", "numpy"):
        for pname, anns in (("p", ["bytes"]), ("pt", ["tuple[int, str]"]), ("pt", ["int", "str"])):
            for typed in (False, True):
                names = ["r", "s"][: len(anns)]
                items = [_item(n, ("float" if typed else None), D1) for n in names]
                sections = [{"kind": "text", "text": [["Summary line."]]}, {"kind": "returns", "items": items}]
                text = RENDER[style](sections, {})
                case_d = {"style": style, "family": "property-returns", "text": text, "property": pname}
                ds = g.Docstring(text, lineno=1, parent=env["mod"]["K." + pname])
                try:
                    got = _norm(ds.parse(style), env["enc"])
                except Exception as e:  # noqa: BLE001
                    acc.violation(f"raise/{style}/{type(e).__name__}/property-returns", f"{style} parser raised {e!r}", case_d, None, size=len(text))
                    continue
                exp = [{"kind": "text", "value": "Summary line."},
                       {"kind": "returns", "value": [{"name": n, "annotation": "float" if typed else a, "description": "Desc one."} for n, a in zip(names, anns)]}]
                ok = got == exp
                acc.case(case_d, outcome=f"{style}:{'ok' if ok else 'diff'}", nontrivial=True)
                acc.observe(got)
                if not ok:
                    acc.violation(f"roundtrip/{style}/property-returns/{'typed' if typed else 'annotation-from-property'}/{len(anns)}-items", f"{style} Returns under property K.{pname}: parsed {got!r}, expected {exp!r}", case_d,
                                  {"got": got, "expected": exp}, size=len(text))


SIGNATURE_SHAPES = [
    # (name, signature as written) -- colons inside any bracket pair belong to the signature, the first top-level ": " ends it
    ("g", "g[T](a: T) -> T"), ("first", "first[T: Hashable](items: list[T]) -> T"), ("Stack", "Stack[T: Comparable](Sequence[T])"), ("pick", "pick[K: (int, str), V](m: dict[K, V]) -> V"),
    ("g", "g(a={1: 2}, b=[x for x in y])"), ("g", "g(cb: Callable[[int], str] = lambda x: str(x))"), ("g", "g(a: dict[str, int] = {}, *args: int, **kw: str) -> list[dict[str, int]]"),
    ("g", "g(s=slice(1, 2), t=x[1:2])"), ("C", "C(a: int = 0, *, b: dict[str, list[int]] | None = None)"), ("g", "g()"), ("g", "g"),
]


def _run_signature_shapes(env, acc):
    """Google / Numpy Functions and Classes sections whose items carry a full signature: the item's name is what stands before the first bracket,
    its signature everything up to the top-level colon (Google) / the whole line (Numpy), whatever brackets, bounds, slices, lambdas or dict displays it contains."""
    g = env["griffe"]
    for style in ("google", "numpy"):
        for kind in ("functions", "classes"):
            for name, sig in SIGNATURE_SHAPES:
                for two in (False, True):
                    items = [_item(name, None, D1, sig=sig)] + ([_item("h", None, D2, sig="h(x)")] if two else [])
                    sections = [{"kind": "text", "text": [["Summary line."]]}, {"kind": kind, "items": items}]
                    text = RENDER[style](sections, {})
                    case_d = {"style": style, "family": "signature-shapes", "text": text, "signature": sig}
                    ds = g.Docstring(text, lineno=1, parent=env["mod"]["f"])
                    try:
                        got = _norm(ds.parse(style), env["enc"])
                    except Exception as e:  # noqa: BLE001
                        acc.violation(f"raise/{style}/{type(e).__name__}/signature-shapes", f"{style} parser raised {e!r}", case_d, None, size=len(text))
                        continue
                    exp = [{"kind": "text", "value": "Summary line."},
                           {"kind": kind, "value": [{"name": it["name"], "annotation": it["sig"] if "(" in it["sig"] or "[" in it["sig"] else None, "description": _join(it["desc"], style)} for it in items]}]
                    ok = got == exp
                    if not ok and "[" in sig.split("(")[0] and len(got) == 2 and got[1].get("kind") == kind and len(got[1]["value"]) == len(items):
                        # what the NAME of an item with type parameters is, is not said anywhere (this Griffe takes what stands before the first parenthesis): not compared
                        alt = [dict(v, name=name) if i == 0 else v for i, v in enumerate(got[1]["value"])]
                        ok = [got[0], {"kind": kind, "value": alt}] == exp
                    acc.case(case_d, outcome=f"{style}:{'ok' if ok else 'diff'}", nontrivial=True)
                    acc.observe(got)
                    if not ok:
                        shape = "type-parameters" if "[" in sig.split("(")[0] else "bare-name" if "(" not in sig else "brackets-in-parameters"
                        acc.violation(f"roundtrip/{style}/signature-shapes/{kind}/{shape}", f"{style} {kind.capitalize()} item `{sig}`: parsed {got!r}, written {exp!r}", case_d, {"got": got, "expected": exp}, size=len(text))


SPELL_SRC = """
import typing
from typing import Tuple, Generator
from typing import *
class Outer:
    class Mid:
        class Inner: ...
def t1() -> tuple[int, str]: ...
def t2() -> Tuple[int, str]: ...
def t3() -> typing.Tuple[int, str]: ...
def g2() -> Generator[Tuple[int, str], Tuple[int, str], Tuple[int, str]]: ...
def u3(x: int | str | None, y: Outer.Mid.Inner = None, z: "bytes | str | int | None" = None) -> bytes | str | None: ...
"""
SPELL_STAR_SRC = "from typing import *\ndef t4() -> Tuple[int, str]: ...\ndef t5() -> List[Tuple[int, str]]: ...\n"


def _run_type_spellings(env, acc):
    """Annotations taken from the signature, whatever way they are spelled: tuples written `tuple[...]`, `Tuple[...]` (imported by name, dotted, through a star import) are spread over
    un-annotated Returns / Yields / Receives items; unions of three and four operands and dotted chains of three names come back in the order they were written."""
    g = env["griffe"]
    mod = g.visit("sp", filepath=Path("sp.py"), code=SPELL_SRC)
    star = g.visit("st", filepath=Path("st.py"), code=SPELL_STAR_SRC)
    for style in ("google", "numpy"):
        for fn, kinds in (("t1", ["returns"]), ("t2", ["returns"]), ("t3", ["returns"]), ("t4", ["returns"]), ("g2", ["returns", "yields", "receives"])):
            for kind in kinds:
                items = [_item("first", None, D1), _item("second", None, D2)]
                sections = [{"kind": "text", "text": [["Summary line."]]}, {"kind": kind, "items": items}]
                text = RENDER[style](sections, {})
                case_d = {"style": style, "family": "type-spellings", "text": text, "parent": fn}
                parent = (star if fn == "t4" else mod)[fn]
                try:
                    got = _norm(g.Docstring(text, lineno=1, parent=parent).parse(style), env["enc"])
                except Exception as e:  # noqa: BLE001
                    acc.violation(f"raise/{style}/{type(e).__name__}/type-spellings", f"{style} parser raised {e!r}", case_d, None, size=len(text))
                    continue
                exp = [{"kind": "text", "value": "Summary line."}, {"kind": kind, "value": [{"name": "first", "annotation": "int", "description": _join(D1, style)}, {"name": "second", "annotation": "str", "description": _join(D2, style)}]}]
                ok = got == exp
                acc.case(case_d, outcome=f"{style}:{'ok' if ok else 'diff'}", nontrivial=True)
                acc.observe(got)
                if not ok:
                    acc.violation(f"roundtrip/{style}/type-spellings/tuple-spread/{kind}/{fn}", f"{style} {kind} under `{fn}`: parsed {got!r}, expected {exp!r}", case_d, {"got": got, "expected": exp}, size=len(text))
        # three and four operands, three dotted names: written in the docstring, and taken from the signature
        for written in (True, False):
            anns = {"x": "int | str | None", "y": "Outer.Mid.Inner", "z": "bytes | str | int | None"}
            items = [_item(n, a if written else None, D1) for n, a in anns.items()]
            ret = [_item("", "bytes | str | None" if written else None, D2)] if style == "google" else [_item("r", "bytes | str | None" if written else None, D2)]
            sections = [{"kind": "text", "text": [["Summary line."]]}, {"kind": "parameters", "items": items}, {"kind": "returns", "items": ret}]
            text = RENDER[style](sections, {})
            case_d = {"style": style, "family": "type-spellings", "text": text, "parent": "u3", "written": written}
            try:
                got = _norm(g.Docstring(text, lineno=1, parent=mod["u3"]).parse(style), env["enc"])
            except Exception as e:  # noqa: BLE001
                acc.violation(f"raise/{style}/{type(e).__name__}/type-spellings", f"{style} parser raised {e!r}", case_d, None, size=len(text))
                continue
            got_anns = [(v.get("name"), v.get("annotation")) for sec in got if sec["kind"] in ("parameters", "returns") for v in sec["value"]]
            want = [(n, a) for n, a in anns.items()] + [(ret[0]["name"] or "", "bytes | str | None")]
            ok = [(n or "", a) for n, a in got_anns] == want
            acc.case(case_d, outcome=f"{style}:{'ok' if ok else 'diff'}", nontrivial=True)
            acc.observe(got_anns)
            if not ok:
                acc.violation(f"roundtrip/{style}/type-spellings/operand-order/{'written' if written else 'from-signature'}", f"{style}: annotations {got_anns}, written {want}", case_d, {"got": got_anns, "expected": want}, size=len(text))


def run_shard(shard, tier):
    env = _setup()
    acc = Acc()
    if shard == 0:
        _run_property_summary(env, acc)
        _run_property_returns(env, acc)
        _run_sphinx_field_orders(env, acc)
    if shard == 1:
        _run_signature_shapes(env, acc)
        _run_type_spellings(env, acc)
    for idx, case in enumerate(cases(tier)):
        if idx % NSHARDS != shard:
            continue
        run_case(env, acc, case)
    return acc.result()


def replay(case):
    env = _setup()
    acc = Acc()
    if case.get("family") in ("property-summary", "property-returns", "sphinx-field-orders", "signature-shapes", "type-spellings"):
        {"type-spellings": _run_type_spellings, "signature-shapes": _run_signature_shapes, "property-summary": _run_property_summary, "property-returns": _run_property_returns, "sphinx-field-orders": _run_sphinx_field_orders}[case["family"]](env, acc)
        return [(k, v["summary"], v["detail"]) for k, v in acc.violations.items()]
    run_case(env, acc, (case["style"], tuple(case["sections"]), case["summary"], case["variant"]))
    return [(k, v["summary"], v["detail"]) for k, v in acc.violations.items()]
