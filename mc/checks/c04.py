"""C04 — Names in expressions resolve to the object Python scoping binds them to.

A four-module package (pkg/__init__, pkg/a, pkg/sub/__init__, pkg/sub/b) plus a top-level module `ext`; every module defines
its own classes X and Y (each with a nested class N), so every import form delivers a class whose defining path is known.
The module under test T (each of the four positions in turn) receives: one (thorough: two, ordered) module-level binding(s) of
the name X from a menu (local class, absolute / aliased / relative from-imports at every legal depth, `import m as X`, plain
`import pkg.a` / `import ext`), an optional class-level binding inside class K (nested class, class-level import), an optional
binding in an enclosing class for the nested-class site, and ONE use site referencing X (or X.N, pkg.a.X, ext.X ...):
module annotation / value, base class, class-body annotation, method parameter annotation / default, nested-class body
annotation, `self.v = X` in __init__, decorator.
Oracle: CPython itself.  The package is imported for real and the object found at the use site is mapped to
`__module__.__qualname__` (a NameError means Python binds nothing: the name must come back unchanged).
"""
from __future__ import annotations

import importlib
import itertools
import os
import sys

from mc.core import boot, sandbox
from mc.core.driver import Acc

PROPERTY = "C04"
LEVEL = "exploration"
NSHARDS = 32
MAXTASKS = None
RULE = (
    "module position x module-level binding(s) x class-level binding x enclosing-class binding x use site x reference form, all combinations; "
    "non-trivial = at least one binding of the referenced name exists on the scope chain; distinct by construction"
)
ASSUMPTIONS = ["CPython 3.12 import + evaluation at the use site is the reference", "every imported name is a class defined directly in the module it is imported from (no re-export chains: those are C05)",
               "a class referring to its own name inside its body is a forward reference in Python; not generated"]
MANIFEST = {
    "category": "exploration",
    "text": "Bounded exhaustive enumeration of (module position, binding forms incl. every relative-import depth, class/module/enclosing-class shadowing, 11 use sites (incl. the decorator itself, the base of a class that re-binds its name, and the same sites in the tree rebuilt from JSON; names bound twice with a resolution forced in between), plain and dotted references); each package is written to disk, imported by CPython and loaded statically; canonical_path of the referenced name must be the defining path of the object CPython finds there, names CPython cannot bind must come back unchanged, nothing may raise. Module bindings include wildcard imports of modules without __all__, with an empty __all__ and with an __all__ that does not list the name.",
    "note": "CPython is the oracle on every case; complete for the binding menu and use sites listed.",
    "technique": "model checking by exhaustive small-scope enumeration of packages on the real loader, CPython evaluation as oracle",
}

POSITIONS = {"pkg/__init__.py": "pkg", "pkg/a.py": "pkg.a", "pkg/sub/__init__.py": "pkg.sub", "pkg/sub/b.py": "pkg.sub.b"}
STD = "class X:\n    class N: ...\nclass Y:\n    class N: ...\n"

# module-level binding menu: (label, statement, reference root, positions where legal)
ALLP = list(POSITIONS)


def module_bindings():
    m = [
        ("none", "", ALLP),
        ("class", "class X:\n    class N: ...", ALLP),
        ("from-abs", "from pkg.a import X", [p for p in ALLP if p != "pkg/a.py"]),
        ("from-abs-as", "from ext import Y as X", ALLP),
        ("import-as", "import ext as X", ALLP),
        ("from-ext", "from ext import X", ALLP),
        ("from-dot", "from . import X", ["pkg/a.py", "pkg/sub/b.py"]),              # X of the containing package
        ("from-dot-mod", "from .a import X", ["pkg/__init__.py"]),
        ("from-dot-mod2", "from .b import X", ["pkg/sub/__init__.py"]),
        ("from-dot-sibling", "from .a import Y as X", ["pkg/__init__.py"]),
        ("from-dotdot", "from .. import X", ["pkg/sub/__init__.py", "pkg/sub/b.py"]),
        ("from-dotdot-mod", "from ..a import X", ["pkg/sub/__init__.py", "pkg/sub/b.py"]),
        ("from-dot-sub", "from .sub import X", ["pkg/__init__.py"]),
        ("from-dot-sub-mod", "from .sub.b import X", ["pkg/__init__.py"]),
        # the optional-dependency idiom: the import succeeds, the fallback in the `except` / `else` clause never runs
        ("try-import-fallback", "try:\n    from ext import X\nexcept ImportError:\n    X = None", ALLP),
        ("if-import-else", "if True:\n    from ext import Y as X\nelse:\n    X = None", ALLP),
        # wildcard imports: of a module without __all__ (X is bound), of one whose __all__ is empty or lists only Y (X is NOT bound: the name must come back unchanged)
        ("wild-ext", "from ext import *", ALLP), ("wild-ext-empty-all", "from extn import *", ALLP), ("wild-ext-all-y", "from exty import *", ALLP),
    ]
    return m


CLASS_BINDINGS = [("none", ""), ("nested-class", "class X:\n    class N: ..."), ("class-import", "from ext import Y as X")]
OUTER_BINDINGS = [("none", ""), ("outer-class", "class X:\n    class N: ...")]
# reference forms: (label, expression text, needs-binding-of)
REFS = [("X", "X"), ("X.N", "X.N")]
DOTTED_REFS = [("import pkg.a", "pkg.a.X"), ("import pkg.a", "pkg.a.X.N"), ("import ext", "ext.Y"), ("import pkg.sub.b", "pkg.sub.b.X")]
SITES = ["mod-annotation", "mod-value", "base", "base-shadowed", "decorator", "decorator-callable", "class-annotation", "method-annotation", "method-default", "nested-class-annotation", "init-self-value"]
# imports that bind a *module* (own submodule, sibling, parent's other child), with and without renaming: (positions, statement, reference)
_INIT, _A, _SUBI, _B = "pkg/__init__.py", "pkg/a.py", "pkg/sub/__init__.py", "pkg/sub/b.py"
MODULE_IMPORTS = [
    ([_INIT], "from . import a", "a.X"), ([_INIT], "from . import a as m", "m.X"), ([_INIT], "from . import a as m", "m.X.N"), ([_INIT, _A], "from . import sub as s", "s.X"),
    ([_INIT, _A], "from . import sub", "sub.X"), ([_INIT, _A], "from .sub import b as m", "m.X"), ([_INIT, _A], "from .sub import b", "b.X"),
    ([_SUBI], "from . import b", "b.X"), ([_SUBI], "from . import b as m", "m.X"), ([_SUBI, _B], "from .. import a as m", "m.X"), ([_SUBI, _B], "from .. import a", "a.X"),
    ([_B], "from .. import sub as s", "s.X"), ([_A, _SUBI, _B], "import pkg.a as m", "m.X"), ([_INIT, _SUBI, _B], "from pkg import a as m", "m.X"),
    ([_INIT, _A, _B], "from pkg import sub as s", "s.X"), ([_INIT, _A, _SUBI], "from pkg.sub import b as m", "m.X"), ([_INIT, _A], "import pkg.sub.b as m", "m.X.N"),
    # several names in one statement: every one of them is bound, whatever is done with its neighbours
    ([_INIT], "from . import a, sub as s", "s.X"), ([_INIT], "from . import a, sub as s", "a.X"), ([_INIT], "from . import sub as s, a", "s.X.N"), ([_INIT], "from . import a as m, sub", "sub.X"),
    ([_SUBI], "from . import b, b as m", "m.X"), ([_SUBI, _B], "from .. import a, sub as s", "s.X"), ([_INIT, _A], "from .sub import b, X as Z", "Z.N"), ([_INIT, _A, _SUBI, _B], "from ext import X, Y as Z", "Z"),
    ([_INIT, _A, _SUBI, _B], "import ext, ext as e3", "e3.Y"), ([_INIT, _A, _SUBI, _B], "import ext as e", "e.Y"), ([_INIT, _A, _SUBI, _B], "import ext as e, ext as e2", "e2.Y"),
]
UNBOUND = [("builtin", "int"), ("unknown", "Unknown"), ("unknown-attr", "Unknown.attr"), ("parent-package-name", "sub"), ("top-package-name-attr", "pkg.X")]


def bounds(tier):
    return {"positions": ALLP, "module_bindings": [b[0] for b in module_bindings()], "class_bindings": [b[0] for b in CLASS_BINDINGS], "sites": SITES,
            "module_binding_sequence_length": 1 if tier == "quick" else 2}


def all_cases(tier):
    mb = module_bindings()
    for pos in ALLP:
        legal = [b for b in mb if pos in b[2]]
        seqs = [(b,) for b in legal]
        if tier == "thorough":
            seqs += [(b1, b2) for b1 in legal for b2 in legal if b1[0] != "none" and b2[0] != "none" and b1[0] != b2[0]]
        for seq in seqs:
            for cb in CLASS_BINDINGS:
                for ob in OUTER_BINDINGS:
                    for site in SITES:
                        if ob[0] != "none" and site != "nested-class-annotation":
                            continue
                        if cb[0] != "none" and site in ("mod-annotation", "mod-value", "base", "decorator", "decorator-callable"):
                            continue
                        if site == "base-shadowed" and cb[0] == "none":
                            continue  # (the class whose header holds the reference binds the same name in its own body: the header belongs to the enclosing scope)
                        for ref in REFS:
                            yield (pos, tuple(b[0] for b in seq), cb[0], ob[0], site, ref[1])
        # the name bound TWICE at module level, with something between the two bindings that makes the visitor resolve it while it visits (an annotated
        # class attribute: the ClassVar test reads the annotation's path): sites written after the second binding are bound by the second one
        for b1 in legal:
            for b2 in legal:
                if b1[0] != "none" and b2[0] != "none" and b1[0] != b2[0] and not b1[0].startswith("wild-ext-"):  # (the first statement must bind X: `Early` reads it)
                    for site in ("mod-annotation", "decorator-callable", "method-annotation"):
                        yield (pos, (b1[0], "stmt:class Early:\n    e: X = None", b2[0]), "none", "none", site, "X")
        for imp, expr in DOTTED_REFS:
            for site in SITES:
                yield (pos, ("stmt:" + imp,), "none", "none", site, expr)
        for poss, imp, expr in MODULE_IMPORTS:
            if pos in poss:
                for site in SITES:
                    yield (pos, ("stmt:" + imp,), "none", "none", site, expr)
        # a module-level name spelled like the enclosing module itself (e.g. `import types` inside pkg/types.py)
        leaf = POSITIONS[pos].rsplit(".", 1)[-1]
        for site in SITES:
            yield (pos, (f"stmt:import ext as {leaf}",), "none", "none", site, f"{leaf}.X")
            yield (pos, (f"stmt:from ext import X as {leaf}",), "none", "none", site, leaf)
        for _lbl, expr in UNBOUND:
            if expr == "sub" and pos == "pkg/__init__.py":
                continue  # `sub` is a submodule of pkg: whether the package namespace binds it depends on import order (not judged)
            for site in SITES:
                yield (pos, ("none",), "none", "none", site, expr)


def shards(tier):
    return list(range(NSHARDS))


def build_module(case):
    pos, mbs, cb, ob, site, ref = case
    mb = {b[0]: b[1] for b in module_bindings()}
    lines = []
    for b in mbs:
        if b.startswith("stmt:"):
            lines.append(b[5:])
        elif mb[b]:
            lines.append(mb[b])
    cbs = dict(CLASS_BINDINGS)[cb]
    obs = dict(OUTER_BINDINGS)[ob]

    def ind(text, n):
        return "\n".join("    " * n + l for l in text.split("\n"))

    if site == "mod-annotation":
        lines.append(f"v: {ref} = None")
    elif site == "mod-value":
        lines.append(f"v = {ref}")
    elif site == "base":
        lines.append(f"class D({ref}): ...")
    elif site == "base-shadowed":
        lines.append(f"class D({ref}):")
        lines.append(ind(cbs, 1) if cbs else "    pass")
    elif site == "decorator":
        lines.append(f"def deco_passthrough(c):\n    return lambda f: f\n@deco_passthrough({ref})\ndef h(): ...")
    elif site == "decorator-callable":
        lines.append(f"@{ref}\ndef h2(): ...")  # the reference IS the decorator (never executed: judged through the mod-value twin)
    else:
        lines.append("class K:")
        if cbs:
            lines.append(ind(cbs, 1))
        if site == "class-annotation":
            lines.append(f"    v: {ref} = None")
        elif site == "method-annotation":
            lines.append(f"    def f(self, p: {ref}): ...")
        elif site == "method-default":
            lines.append(f"    def f(self, p={ref}): ...")
        elif site == "init-self-value":
            lines.append(f"    def __init__(self):\n        self.v = {ref}")
        elif site == "nested-class-annotation":
            # K plays the enclosing class: the outer binding (if any) lives in K, the class-level binding in Inner
            lines = lines[:-1 - (1 if cbs else 0)]
            lines.append("class K:")
            if obs:
                lines.append(ind(obs, 1))
            lines.append("    class Inner:")
            if cbs:
                lines.append(ind(cbs, 2))
            lines.append(f"        v: {ref} = None")
    return "\n".join(lines) + "\n"


def files_for(case):
    pos = case[0]
    files = {p: STD for p in POSITIONS}
    files["ext.py"] = STD
    files["extn.py"] = "__all__ = []\n" + STD
    files["exty.py"] = "__all__ = ['Y']\n" + STD
    files[pos] = build_module(case)
    return files


def _path_of(obj):
    import types

    if isinstance(obj, types.ModuleType):
        return obj.__name__
    if isinstance(obj, type):
        if obj.__module__ == "builtins":
            return "UNBOUND"  # no static binding in the analysed sources: the name must come back unchanged
        return f"{obj.__module__}.{obj.__qualname__}"
    return "VALUE:" + repr(obj)


def cpython_eval(case, root):
    """-> path string, or 'UNBOUND' when Python raises NameError/AttributeError at the use site."""
    pos, mbs, cb, ob, site, ref = case
    modname = POSITIONS[pos]
    with sandbox.interpreter_state():
        sys.path.insert(0, root)
        importlib.invalidate_caches()
        try:
            mod = importlib.import_module(modname)
            if site == "mod-annotation":
                o = mod.__annotations__["v"]
            elif site == "mod-value":
                o = mod.v
            elif site in ("base", "base-shadowed"):
                o = mod.D.__bases__[0]
            elif site in ("decorator", "decorator-callable"):
                return None  # evaluated like a module-level value; judged through the mod-value twin
            elif site == "class-annotation":
                o = mod.K.__annotations__["v"]
            elif site == "method-annotation":
                o = mod.K.f.__annotations__["p"]
            elif site == "method-default":
                o = mod.K.f.__defaults__[0]
            elif site == "nested-class-annotation":
                o = mod.K.Inner.__annotations__["v"]
            elif site == "init-self-value":
                o = mod.K().v
        except NameError:
            return "UNBOUND"
        except (TypeError, AttributeError):
            return "TYPEERROR"  # e.g. a module used as a base class: not a meaningful program
        finally:
            for k in [k for k in sys.modules if k == "pkg" or k.startswith("pkg.") or k in ("ext", "extn", "exty")]:
                del sys.modules[k]
    return _path_of(o)


_RELOAD = False


def griffe_eval(griffe, case, root):
    pos, mbs, cb, ob, site, ref = case
    loader = griffe.GriffeLoader(search_paths=[root], allow_inspection=False)
    if any(b.startswith("wild-ext") for b in mbs):
        for dep in ("ext", "extn", "exty"):
            loader.load(dep)  # (a wildcard import is expanded from what is loaded: the dependency first)
    pkg = loader.load("pkg")
    loader.load("ext")
    mod = loader.modules_collection[POSITIONS[pos]]
    if _RELOAD:
        # the same question put to the tree rebuilt from its own JSON (another way of entering the library: names must bind the same)
        pkg2 = griffe.Module.from_json(pkg.as_json())
        mod = pkg2
        for part in POSITIONS[pos].split(".")[1:]:
            mod = mod.members[part]
    if site in ("mod-annotation",):
        expr = mod.members["v"].annotation
    elif site == "mod-value":
        expr = mod.members["v"].value
    elif site in ("base", "base-shadowed"):
        expr = mod.members["D"].bases[0]
    elif site == "decorator":
        expr = mod.members["h"].decorators[0].value.arguments[0]
    elif site == "decorator-callable":
        deco = mod.members["h2"].decorators[0]
        expr = deco.value
        if not isinstance(expr, str) and deco.callable_path != expr.canonical_path:
            # what the decorator object says it calls is what its own expression resolves to (after the load, not as of some moment during it)
            return f"{deco.callable_path} (callable_path) != {expr.canonical_path} (canonical_path of the decorator expression)", str(expr), loader
    elif site == "class-annotation":
        expr = mod.members["K"].members["v"].annotation
    elif site == "method-annotation":
        expr = mod.members["K"].members["f"].parameters["p"].annotation
    elif site == "method-default":
        expr = mod.members["K"].members["f"].parameters["p"].default
    elif site == "nested-class-annotation":
        expr = mod.members["K"].members["Inner"].members["v"].annotation
    elif site == "init-self-value":
        expr = mod.members["K"].members["v"].value
    if isinstance(expr, str):
        return expr, expr, loader
    return expr.canonical_path, str(expr), loader


def run_case(griffe, acc, case):
    pos, mbs, cb, ob, site, ref = case
    with sandbox.scratch_dir("c04") as d:
        sandbox.write_tree(d, files_for(case))
        twin = case if site not in ("decorator", "decorator-callable") else (pos, mbs, cb, ob, "mod-value", ref)
        if site in ("decorator", "decorator-callable"):
            with sandbox.scratch_dir("c04t") as d2:
                sandbox.write_tree(d2, files_for(twin))
                exp = cpython_eval(twin, d2)
        else:
            exp = cpython_eval(case, d)
        src = files_for(case)[pos]
        cd = {"case": list(case), "module": POSITIONS[pos], "source": src}
        try:
            got, text, loader = griffe_eval(griffe, case, d)
        except Exception as e:  # noqa: BLE001
            acc.violation(f"raise/{type(e).__name__}/{site}", f"resolution raised {e!r}", cd, None, size=len(src))
            acc.case(cd, outcome="raise")
            return
        if site not in ("init-self-value", "decorator-callable"):
            # (init-self-value: names of __init__ parameters in instance-attribute values are C08's known finding)
            global _RELOAD
            _RELOAD = True
            try:
                got2 = griffe_eval(griffe, case, d)[0]
            except Exception as e:  # noqa: BLE001
                got2 = f"RAISE {type(e).__name__}"
            finally:
                _RELOAD = False
            if got2 != got:
                acc.violation(f"reloaded/{site}", f"{POSITIONS[pos]}: {ref!r} at {site} resolves to {got!r} in the loaded tree and to {got2!r} in the tree rebuilt from its JSON", cd, None, size=len(src))
    bound = any(b != "none" for b in mbs) or cb != "none" or ob != "none"
    binding_form = "+".join(b for b in mbs if b != "none") or "-"
    scopes = f"module:{binding_form}/class:{cb}/outer:{ob}"
    if exp == "TYPEERROR" or (exp or "").startswith("VALUE:"):
        acc.case(cd, outcome="skipped-not-a-program", nontrivial=False)
        return
    modpath = POSITIONS[pos]
    parent_pkg = modpath.rsplit(".", 1)[0] if "." in modpath else None
    suffix = ref.split(".", 1)[1] if "." in ref else ""
    root_got = got[: len(got) - len(suffix) - 1] if suffix and got.endswith("." + suffix) else got
    leak = None
    if site == "nested-class-annotation" and ob != "none" and cb == "none" and root_got == f"{modpath}.K.X":
        leak = "enclosing-class-body-into-nested-class-body"
    elif site == "init-self-value" and cb != "none" and root_got in (f"{modpath}.K.X", "ext.Y"):
        leak = "class-body-into-method-body"
    elif parent_pkg and root_got != exp and any(root_got == f"{anc}.{ref.split('.')[0]}" for anc in (parent_pkg, parent_pkg.rsplit(".", 1)[0])):
        leak = "parent-package-globals-into-submodule"
    if leak and got != exp and not (exp == "UNBOUND" and got in (ref, text)):
        acc.case(cd, outcome="leak:" + leak, nontrivial=bound)
        acc.violation(f"scope-leak/{leak}", f"{modpath}: {ref!r} at {site} resolves to {got!r}; Python {'binds nothing (NameError)' if exp == 'UNBOUND' else 'binds ' + repr(exp)}", cd, {"got": got, "expected": exp}, size=len(src))
        return
    if exp == "UNBOUND":
        ok = got == ref or got == text
        acc.case(cd, outcome="unbound:" + ("unchanged" if ok else "resolved"), nontrivial=bound)
        if not ok:
            acc.violation(f"unjustified/{site}/{scopes}", f"{POSITIONS[pos]}: Python binds nothing for {ref!r} at {site} (NameError) but Griffe resolves it to {got!r}", cd, {"got": got}, size=len(src))
        return
    ok = got == exp
    acc.case(cd, outcome="bound:" + ("ok" if ok else "diff"), nontrivial=bound)
    acc.observe(got)
    if not ok:
        gcls = "unchanged" if got in (ref, text) else "other-binding"
        acc.violation(f"resolve/{site}/{scopes}/{gcls}" + (f"/{pos}" if "dot" in binding_form else ""),
                      f"{POSITIONS[pos]}: {ref!r} at {site} resolves to {got!r}; Python binds {exp!r}", cd, {"got": got, "expected": exp}, size=len(src))


def run_shard(shard, tier):
    boot.boot()
    import griffe

    acc = Acc()
    for idx, case in enumerate(all_cases(tier)):
        if idx % NSHARDS != shard:
            continue
        try:
            run_case(griffe, acc, case)
        except Exception as e:  # noqa: BLE001
            import traceback

            acc.violation(f"harness-error/{type(e).__name__}", repr(e), {"case": list(case)}, {"tb": traceback.format_exc()[-900:]})
    return acc.result()


def replay(case):
    boot.boot()
    import griffe

    acc = Acc()
    c = case["case"]
    run_case(griffe, acc, (c[0], tuple(c[1]), c[2], c[3], c[4], c[5]))
    return [(k, v["summary"], v["detail"]) for k, v in acc.violations.items()]
