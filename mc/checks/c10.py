"""C10 — No call-breaking signature change goes unreported.

Space: ALL ordered pairs (old, new) of legal signatures over a small name alphabet, and ALL call shapes
(k positional arguments, any subset of the names + one foreign name as keywords).
Oracle: the two `def`s are compiled and really called with every shape (CPython is the binder).
  (i)   some shape binds on old and raises TypeError on new  =>  >= 1 breakage reported on f
  (ii)  moved positional / changed default / optional->required  =>  that breakage kind is reported
  (iii) identical signatures  =>  no breakage
  (iv)  every parameter breakage names a parameter that really differs between old and new
Keys: a failing pair is reduced by deleting parameters (by name, from both sides) while it still fails,
and keyed by the per-name kind transitions of the minimal pair.
"""
from __future__ import annotations

import re
from pathlib import Path

from mc.core import boot
from mc.core.driver import Acc
from mc.gen import signatures as S

PROPERTY = "C10"
LEVEL = "exploration"
RULE = (
    "all ordered pairs of legal signatures (kinds x defaults x orders) over the stated alphabet, each judged against all "
    "call shapes by really calling compiled defs; a pair is non-trivial when the signatures differ and at least one call "
    "shape binds against the old signature (so a breaking change is possible); pairs are distinct by construction"
)
ASSUMPTIONS = [
    "CPython 3.12 in /venv is the reference binder",
    "argument values are irrelevant to binding (all arguments are 0)",
    "parameter names beyond the alphabet behave like those in it (alpha-renaming)",
]
NSHARDS = 64

_CFG = {
    "quick": dict(names="abc", max_params=2, defaults=(None, "0", "1"), max_pos=3),
    "thorough": dict(names="abc", max_params=3, defaults=(None, "0", "1"), max_pos=4),
}
_ALPHABETS = ["abc", "pqr", "xyw", "mno"]


def bounds(tier):
    c = _CFG[tier]
    n = len(S.signatures(c["names"], c["max_params"], c["defaults"]))
    return {**{k: (list(v) if isinstance(v, tuple) else v) for k, v in c.items()}, "signatures": n, "ordered_pairs": n * n,
            "call_shapes": len(S.call_shapes(c["names"], c["max_pos"]))}


def shards(tier):
    return list(range(NSHARDS))


_state: dict = {}


def _rename(sig, mapping):
    return tuple((mapping[n], k, d) for n, k, d in sig)


def _prepare(tier):
    if tier in _state:
        return _state[tier]
    boot.boot()
    import griffe

    c = _CFG[tier]
    sigs = S.signatures(c["names"], c["max_params"], c["defaults"])
    if tier == "quick":
        # three parameters at once (what needs three of a kind, or a first, a middle and a last one): those without defaults and those where every one has the same default
        seen_sigs = set(sigs)
        sigs = sigs + [s for s in S.signatures(c["names"], 3, (None, "0")) if len(s) == 3 and len({d for _n, k, d in s if k not in ("va", "vk")}) <= 1 and s not in seen_sigs]
    shapes = S.call_shapes(c["names"], c["max_pos"])
    masks = [S.accept_mask(s, shapes) for s in sigs]
    # alpha-renaming by seed: verdicts must not depend on the identifiers chosen
    alpha = _ALPHABETS[boot.seed() % len(_ALPHABETS)]
    mapping = dict(zip("abc", alpha))
    mods = []
    for s in sigs:
        code = S.render_def(_rename(s, mapping))
        mods.append(griffe.visit("m", filepath=Path("m.py"), code=code))
    _state[tier] = (griffe, sigs, shapes, masks, mods, mapping)
    _state[(tier, "dyn")] = _dynamic_mods(griffe, sigs, mapping) if tier == "quick" else None
    return _state[tier]


def _dynamic_mods(griffe, sigs, mapping):
    """The same definitions loaded by runtime inspection (one file per signature, imported from a scratch directory)."""
    import sys

    from mc.core import sandbox

    out = []
    with sandbox.scratch_dir("c10dyn") as d, sandbox.interpreter_state():
        for i, s in enumerate(sigs):
            with open(f"{d}/c10dyn_{i}.py", "w") as f:
                f.write(S.render_def(_rename(s, mapping)))
        for i in range(len(sigs)):
            mod = griffe.inspect(f"c10dyn_{i}", filepath=Path(f"{d}/c10dyn_{i}.py"), import_paths=[d])
            out.append(mod)
            sys.modules.pop(f"c10dyn_{i}", None)
    return out


def _mod_for(griffe, sig, mapping):
    return griffe.visit("m", filepath=Path("m.py"), code=S.render_def(_rename(sig, mapping)))


def _pinfo(sig):
    """name -> (kind, default, index among positional kinds or None, required)"""
    out = {}
    pos = 0
    for n, k, d in sig:
        idx = None
        if k in ("po", "pk"):
            idx = pos
        if k in ("po", "pk", "va"):
            pos += 1
        out[n] = (k, d, idx, d is None and k not in ("va", "vk"))
    return out


def _list_index(sig):
    return {n: i for i, (n, _k, _d) in enumerate(sig)}


def judge(griffe, old, new, mask_old, mask_new, mod_old, mod_new, inv):
    """Return list of (kind, info) problems for one pair."""
    brs = list(griffe.find_breaking_changes(mod_old, mod_new))
    kinds = [b.kind.value for b in brs]
    problems = []
    broken = mask_old & ~mask_new
    if broken and not brs:
        problems.append(("miss", None))
    if old == new and brs:
        problems.append(("spurious", kinds[0]))
    po, pn = _pinfo(old), _pinfo(new)
    lo, ln = _list_index(old), _list_index(new)
    for name in po:
        if name in pn:
            ko, do, io, ro = po[name]
            kn, dn, i_n, rn = pn[name]
            if io is not None and i_n is not None and lo[name] != ln[name] and "Positional parameter was moved" not in kinds:
                problems.append(("unreported", "moved"))
            if do is not None and dn is not None and do != dn and ko not in ("va", "vk") and kn not in ("va", "vk") and "Parameter default was changed" not in kinds:
                problems.append(("unreported", "default"))
            if (not ro) and rn and ko not in ("va", "vk") and "Parameter is now required" not in kinds:
                problems.append(("unreported", "required"))
    # (iv) soundness of parameter breakages
    for b in brs:
        if not b.kind.value.startswith(("Parameter", "Positional parameter")):
            continue
        p = b.old_value if b.old_value is not None else b.new_value
        name = inv.get(getattr(p, "name", None))
        if name is None:
            problems.append(("unsound", b.kind.value + ":no-such-parameter"))
            continue
        a = (po.get(name), lo.get(name))
        c = (pn.get(name), ln.get(name))
        if a == c:
            problems.append(("unsound", b.kind.value))
    return problems, kinds


def _drop(sig, name):
    return tuple(p for p in sig if p[0] != name)


def _key_for(kind, info, old, new):
    po, pn = _pinfo(old), _pinfo(new)
    trans = []
    tmap = {}
    for n in sorted(set(po) | set(pn)):
        a = po.get(n)
        b = pn.get(n)
        # the default marker is part of the signature only when default-ness itself changes
        dd = a is not None and b is not None and (a[1] is None) != (b[1] is None)
        sa = "-" if a is None else a[0] + ("=" if dd and a[1] is not None else "")
        sb = "-" if b is None else b[0] + ("=" if dd and b[1] is not None else "")
        tmap[n] = f"{sa}>{sb}" if (sa != sb or (a and b and a[2] != b[2])) else sa
        trans.append(tmap[n])
    ctx = ",".join(sorted(trans))
    if kind == "miss":
        return f"miss/{_break_class(old, new, tmap)}"
    return f"{kind}/{info}/{ctx}"


_ERR = [
    (re.compile(r"got multiple values for argument '(\w+)'"), "multiple-values"),
    (re.compile(r"missing \d+ required (?:positional|keyword-only) arguments?: '(\w+)'"), "missing"),
    (re.compile(r"got an unexpected keyword argument '(\w+)'"), "unexpected-keyword"),
    (re.compile(r"positional-only arguments passed as keyword arguments: '(\w+)'"), "posonly-by-keyword"),
    (re.compile(r"takes (?:from )?\d+ (?:to \d+ )?positional arguments? but"), "too-many-positional"),
]


def _break_class(old, new, tmap):
    """How the smallest breaking call fails on `new`, and what happened to the parameter CPython blames."""
    names = sorted({p[0] for p in old} | {p[0] for p in new} | {"a"})
    shapes = S.call_shapes(names, 4)
    ns_o, ns_n = {}, {}
    exec(S.render_def(old), ns_o)  # noqa: S102
    exec(S.render_def(new), ns_n)  # noqa: S102
    for k, kws in shapes:
        if not S.accepts(ns_o["f"], (k, kws)):
            continue
        try:
            ns_n["f"](*([0] * k), **{n: 0 for n in kws})
        except TypeError as e:
            msg = str(e)
            for rx, cls in _ERR:
                m = rx.search(msg)
                if m:
                    who = m.group(1) if m.groups() else None
                    if who is None:
                        return cls + "/" + ",".join(sorted(t for t in tmap.values() if ">" in t))
                    return f"{cls}/{tmap.get(who, 'foreign-name')}"
            return "other/" + msg
    return "none"


def _minimise(griffe, kind, info, old, new, shapes, mapping, inv):
    """Delete parameters (same name on both sides) while the same problem persists."""
    changed = True
    while changed:
        changed = False
        for name in sorted({p[0] for p in old} | {p[0] for p in new}):
            o2, n2 = _drop(old, name), _drop(new, name)
            if not (S.legal(o2) and S.legal(n2)):
                continue
            probs, _ = judge(griffe, o2, n2, S.accept_mask(o2, shapes), S.accept_mask(n2, shapes),
                             _mod_for(griffe, o2, mapping), _mod_for(griffe, n2, mapping), inv)
            if any(p[0] == kind and p[1] == info for p in probs):
                old, new = o2, n2
                changed = True
                break
    return old, new


# default values of every expression shape (the two-value alphabet above cannot tell whether a default expression is READ correctly):
# every ordered pair of shapes for one parameter, positional-or-keyword and keyword-only; a pair of different shapes must be reported as a
# changed default, shape -> no default as "now required", equal shapes as nothing
DEFAULT_SHAPES = ["0", "-1", "1 + 2", "'s'", "b's'", "None", "...", "(1, 2)", "[1, 2]", "{1: 2}", "{1}", "int", "int.real", "lambda: 0", "(lambda: 0)()", "not 0", "0 if 0 else 1",
                  "[x for x in ()]", "{**{}}", "f'{0}'", "f'{0}{1}'", """f"{f'{0}'}" """.strip(), """f"a{f'{0}b'}c" """.strip(), "len('a')", "int(**{})", "1 < 2 < 3", "-(-1)", "(yield_ := 3)",
                  # the same tokens grouped differently (different values for CPython)
                  "(1 + 2) * 3", "1 + 2 * 3", "-(1 + 2)", "(-1) + 2", "(2 ** 3) ** 2", "2 ** 3 ** 2", "(1 or 0) and 0", "1 or 0 and 0", "(3 > 2) > 1", "3 > 2 > 1"]


def _run_default_shapes(griffe, acc):
    from pathlib import Path as _P

    def mod(kind, d):
        star = "*, " if kind == "ko" else ""
        return griffe.visit("m", filepath=_P("m.py"), code=f"def f({star}a{'' if d is None else '=' + d}): ...\n")

    for kind in ("pk", "ko"):
        mods = {d: mod(kind, d) for d in [None] + DEFAULT_SHAPES}
        for d, m in mods.items():
            if d is not None:
                exec(f"def f(a={d}): ...", {})  # noqa: S102  (every shape is a legal default for CPython)
                p = m["f"].parameters["a"]
                if p.default is None or p.required:
                    acc.violation(f"default-shape/lost/{kind}", f"def f(a={d}): Griffe reads no default (parameter required)", {"default": d, "kind": kind}, None, size=len(d))
        for d1 in [None] + DEFAULT_SHAPES:
            for d2 in [None] + DEFAULT_SHAPES:
                kinds = [b.kind.value for b in griffe.find_breaking_changes(mods[d1], mods[d2])]
                acc.case({"old_default": d1, "new_default": d2, "kind": kind}, outcome="default-shapes:" + ("reported" if kinds else "silent"), nontrivial=d1 != d2)
                case = {"old_default": d1, "new_default": d2, "kind": kind}
                if d1 == d2 and kinds:
                    acc.violation(f"default-shape/spurious/{kind}", f"identical signatures a={d1}: reported {kinds}", case, None, size=2)
                elif d1 is not None and d2 is not None and d1 != d2 and "Parameter default was changed" not in kinds:
                    acc.violation(f"default-shape/unreported-change/{kind}", f"a={d1} -> a={d2}: no 'default was changed' breakage ({kinds})", case, None, size=len(d1) + len(d2))
                elif d1 is not None and d2 is None and "Parameter is now required" not in kinds:
                    acc.violation(f"default-shape/unreported-required/{kind}", f"a={d1} -> a: no 'now required' breakage ({kinds})", case, None, size=len(d1))


# defaults as the INSPECTOR sees them (runtime values, not source text): every default is kept (the parameter stays optional) and two different values are two different defaults
DYN_PRELUDE = "import enum, os\nclass Mode(enum.Enum):\n    FAST = 1\n    SAFE = 2\nclass Pt:\n    def __init__(self, v):\n        self.v = v\n    def __repr__(self):\n        return f'<Pt {self.v}>'\n_MISSING = object()\n"
DYN_DEFAULTS = ["0", "1", "'<'", "'<b>'", "'a<b'", "Mode.FAST", "Mode.SAFE", "Pt(1)", "Pt(2)", "_MISSING", "None", "(1, 2)", "[1]", "{'k': 1}", "1.5", "b'x'", "-1", "True"]


def _run_dynamic_defaults(griffe, acc):
    import sys

    from mc.core import sandbox

    with sandbox.scratch_dir("c10dd") as d, sandbox.interpreter_state():
        mods = {}
        for i, dflt in enumerate([None] + DYN_DEFAULTS):
            for kind in ("pk", "ko", "po"):
                star = "*, " if kind == "ko" else ""
                slash = ", /" if kind == "po" else ""
                name = f"c10dd_{i}_{kind}"
                with open(f"{d}/{name}.py", "w") as f:
                    f.write(DYN_PRELUDE + f"def f({star}a{'' if dflt is None else '=' + dflt}{slash}): ...\n")
                mods[(dflt, kind)] = griffe.inspect(name, filepath=Path(f"{d}/{name}.py"), import_paths=[d])
                sys.modules.pop(name, None)
        for kind in ("pk", "ko", "po"):
            for dflt in DYN_DEFAULTS:
                p = mods[(dflt, kind)]["f"].parameters["a"]
                acc.case({"default": dflt, "kind": kind, "agent": "dynamic"}, outcome="dynamic-default:" + ("kept" if p.default is not None else "lost"), nontrivial=True)
                if p.default is None or p.required:
                    acc.violation(f"dynamic-default/lost/{kind}", f"def f(a={dflt}) inspected: no default (parameter required)", {"default": dflt, "kind": kind, "dynamic_defaults": True}, None, size=len(dflt))
            for d1 in DYN_DEFAULTS:
                for d2 in DYN_DEFAULTS:
                    kinds = [b.kind.value for b in griffe.find_breaking_changes(mods[(d1, kind)], mods[(d2, kind)]) if b.obj.name == "f"]
                    case = {"old_default": d1, "new_default": d2, "kind": kind, "dynamic_defaults": True}
                    acc.case(case, outcome="dynamic-defaults:" + ("reported" if kinds else "silent"), nontrivial=d1 != d2)
                    if d1 == d2 and kinds and d1 != "_MISSING":
                        acc.violation(f"dynamic-default/spurious/{kind}", f"identical signatures a={d1} (inspected): reported {kinds}", case, None, size=2)
                    elif d1 != d2 and "Parameter default was changed" not in kinds:
                        shape = "enum" if "Mode." in d1 and "Mode." in d2 else "angle-bracket-repr" if ("Pt(" in d1 and "Pt(" in d2) else "other"
                        acc.violation(f"dynamic-default/unreported-change/{shape}/{kind}", f"a={d1} -> a={d2} (inspected): no 'default was changed' breakage ({kinds})", case, None, size=len(d1) + len(d2))


# functions under a decorator that leaves the signature alone (a registry, a dispatcher, a call, an attribute chain -- some of them NAMED like typing's
# `overload` without being it): the definition CPython binds is the one written, and the comparison must say what it says without the decorator
DECO_PRELUDE = "import functools\nimport reg\nimport reg.sub\nfrom disp import overload as ov\nfrom disp import overload\n"
DECORATORS = ["@reg.register", "@reg.overload", "@reg.sub.overload", "@reg.overload()", "@ov", "@overload", "@functools.wraps(print)", "@reg.register\n@reg.overload"]
DECO_PAIRS = [("a", "a, c"), ("a=0", "a"), ("a", "*, a"), ("a, b", "a"), ("a, b", "b, a"), ("a", "a, c=0"), ("a", "a")]


def _run_decorated(griffe, acc):
    from pathlib import Path as _P

    def mod(deco, sig):
        return griffe.visit("m", filepath=_P("m.py"), code=DECO_PRELUDE + (deco + "\n" if deco else "") + f"def f({sig}): ...\n")

    for old, new in DECO_PAIRS:
        want = sorted(b.kind.value for b in griffe.find_breaking_changes(mod(None, old), mod(None, new)))
        for deco in DECORATORS:
            case = {"decorator": deco, "old": old, "new": new}
            mo, mn = mod(deco, old), mod(deco, new)
            if "f" not in mo.members or not mo.members["f"].is_function:
                acc.violation("decorated/not-a-member", f"{deco} def f({old}): f is not a function member of the module ({sorted(mo.members)})", case, None, size=len(deco))
                continue
            got = sorted(b.kind.value for b in griffe.find_breaking_changes(mo, mn))
            acc.case(case, outcome="decorated:" + ("reported" if got else "silent"), nontrivial=True)
            if got != want:
                acc.violation("decorated/differs-from-undecorated/" + ("lost" if len(got) < len(want) else "extra"), f"{deco} def f({old}) -> def f({new}): reported {got}, without the decorator {want}", case, None, size=len(deco))


# the same pairs under identifiers that LOOK special (leading double underscore, leading / trailing underscore): CPython gives such parameter names no meaning
# outside a class body; and the kinds read by the visitor are those inspect.signature reports
UNDERSCORE_NAMES = {"a": "__a", "b": "_b", "c": "c_"}


def _run_underscore_names(griffe, acc):
    import inspect as _inspect

    sigs = S.signatures("abc", 2, (None, "0"))
    shapes = S.call_shapes("abc", 3)
    inv = {v: k for k, v in UNDERSCORE_NAMES.items()}
    mods = [_mod_for(griffe, s_, UNDERSCORE_NAMES) for s_ in sigs]
    masks = [S.accept_mask(s_, shapes) for s_ in sigs]
    kind_names = {"po": "positional-only", "pk": "positional or keyword", "va": "variadic positional", "ko": "keyword-only", "vk": "variadic keyword"}
    for s_, m in zip(sigs, mods):
        got = [(p.name, p.kind.value) for p in m["f"].parameters]
        want = [(UNDERSCORE_NAMES[n], kind_names[k]) for n, k, _d in s_]
        if got != want:
            acc.violation("underscore-names/kind", f"def f({S.render_params(_rename(s_, UNDERSCORE_NAMES))}): Griffe reads {got}, written (and bound by CPython as) {want}", {"decorator": None, "underscore": S.render_params(_rename(s_, UNDERSCORE_NAMES))}, None, size=len(s_))
    for i, old in enumerate(sigs):
        for j, new in enumerate(sigs):
            probs, kinds = judge(griffe, old, new, masks[i], masks[j], mods[i], mods[j], inv)
            acc.case({"old": S.render_params(_rename(old, UNDERSCORE_NAMES)), "new": S.render_params(_rename(new, UNDERSCORE_NAMES))}, outcome="underscore:" + ("reported" if kinds else "silent"), nontrivial=old != new)
            for kind, info in probs:
                if (kind, info) in (("miss", None),) and any(k.startswith(("miss/",)) for k in ()):
                    continue
                key = _key_for(kind, info, old, new)
                # (the key of the plain alphabet: a root cause already listed stays one entry; anything the plain names do not show is a new key)
                acc.violation(key, f"{kind} {info}: def f({S.render_params(_rename(old, UNDERSCORE_NAMES))}) -> def f({S.render_params(_rename(new, UNDERSCORE_NAMES))})",
                              {"old": S.render_params(old), "new": S.render_params(new), "old_sig": old, "new_sig": new, "underscore": True}, None, size=len(old) + len(new))


# signatures reached through inheritance: a public class at the end of a chain of two and three classes whose ancestors are private; the method CPython finds
# on the public class is the NEAREST definition: changing that one is a breakage of the public class, changing a shadowed one further up is not
def _run_inherited(griffe, acc):
    from pathlib import Path as _P

    def mod(sig_root, sig_mid, chain):
        if chain == 2:
            src = f"class _B:\n    def f(self, {sig_mid}): ...\nclass C(_B):\n    pass\n"
        else:
            src = f"class _A:\n    def f(self, {sig_root}): ...\n    def only_root(self, {sig_root}): ...\nclass _B(_A):\n    def f(self, {sig_mid}): ...\nclass C(_B):\n    pass\n"
        coll = griffe.ModulesCollection()
        m = griffe.visit("m", filepath=_P("m.py"), code=src, modules_collection=coll)
        coll.set_member("m", m)  # (inheritance is resolved through the collection)
        return m

    changes = [("x, y=0", "x, y", "required"), ("x, y=0", "x", "removed"), ("x, y", "y, x", "moved"), ("x", "x, z", "added-required")]
    for chain in (2, 3):
        for old_sig, new_sig, what in changes:
            for where in ("nearest", "shadowed", "root-only") if chain == 3 else ("nearest",):
                if where == "nearest":
                    old, new = mod("x, y=0", old_sig, chain), mod("x, y=0", new_sig, chain)
                elif where == "shadowed":
                    old, new = mod(old_sig, "x, y=0", chain), mod(new_sig, "x, y=0", chain)
                else:
                    old, new = mod(old_sig, "q", chain), mod(new_sig, "q", chain)  # (only_root is inherited from the far end of the chain: nothing shadows it)
                brs = [(b.kind.value, b.obj.path) for b in griffe.find_breaking_changes(old, new)]
                case = {"decorator": None, "inherited": True, "chain": chain, "change": what, "where": where}
                acc.case(case, outcome="inherited:" + ("reported" if brs else "silent"), nontrivial=True)
                # (a breakage found through an inherited member is reported at the member's own path inside the private class: the known C11 wrong-path cause; either path counts here)
                hit_f = [b for b in brs if b[1] in ("m.C.f", "m._B.f")]
                hit_shadowed = [b for b in brs if b[1] in ("m.C.f", "m._B.f", "m._A.f")]
                hit_root = [b for b in brs if b[1] in ("m.C.only_root", "m._A.only_root")]
                if where == "nearest" and not hit_f:
                    acc.violation(f"inherited/miss/{chain}-classes/{what}", f"chain of {chain}: the definition of f that C inherits changed ({old_sig} -> {new_sig}); nothing is reported at m.C.f ({brs})", case, None, size=chain)
                if where == "shadowed" and hit_shadowed:
                    acc.violation(f"inherited/spurious/shadowed/{what}", f"chain of 3: only the SHADOWED _A.f changed; reported {hit_shadowed}", case, None, size=chain)
                if where in ("shadowed", "root-only") and not hit_root:
                    acc.violation(f"inherited/miss/far-end/{what}", f"chain of 3: _A.only_root changed ({old_sig} -> {new_sig}), inherited by C unshadowed; nothing reported at m.C.only_root ({brs})", case, None, size=chain)


def run_shard(shard, tier):
    griffe, sigs, shapes, masks, mods, mapping = _prepare(tier)
    inv = {v: k for k, v in mapping.items()}
    acc = Acc()
    seen_min: dict = {}
    if shard == 0:
        _run_default_shapes(griffe, acc)
    if shard == 1:
        _run_dynamic_defaults(griffe, acc)
    if shard == 2:
        _run_decorated(griffe, acc)
    if shard == 3:
        _run_underscore_names(griffe, acc)
    if shard == 4:
        _run_inherited(griffe, acc)
    for i in range(shard, len(sigs), NSHARDS):
        old = sigs[i]
        for j, new in enumerate(sigs):
            probs, kinds = judge(griffe, old, new, masks[i], masks[j], mods[i], mods[j], inv)
            dyn = _state.get((tier, "dyn"))
            if dyn is not None:
                # the same two definitions loaded by runtime inspection: the comparison must say the same
                kinds_dyn = sorted(b.kind.value for b in griffe.find_breaking_changes(dyn[i], dyn[j]) if b.obj.name == "f")  # (not the module's own dunder attributes)
                if kinds_dyn != sorted(kinds):
                    lost, extra = sorted(set(kinds) - set(kinds_dyn)), sorted(set(kinds_dyn) - set(kinds))
                    acc.violation(f"dynamic-differs/{'lost:' + lost[0] if lost else 'extra:' + extra[0] if extra else 'count'}", f"def f({S.render_params(old)}) -> def f({S.render_params(new)}): visited trees report {sorted(kinds)}, inspected trees {kinds_dyn}",
                                  {"old": S.render_params(old), "new": S.render_params(new), "old_sig": old, "new_sig": new, "dynamic": True}, None, size=len(old) + len(new))
            broken = bool(masks[i] & ~masks[j])
            outcome = ("breaking" if broken else "compatible") + ("+reported" if kinds else "+silent")
            acc.case({"old": S.render_params(old), "new": S.render_params(new)}, outcome=outcome,
                     nontrivial=(old != new and masks[i] != 0))
            acc.observe(sorted(kinds))
            for kind, info in probs:
                rough = _key_for(kind, info, old, new)
                if rough not in seen_min:
                    seen_min[rough] = _minimise(griffe, kind, info, old, new, shapes, mapping, inv)
                mo, mn = seen_min[rough]
                key = _key_for(kind, info, mo, mn)
                case = {"old": S.render_params(mo), "new": S.render_params(mn), "old_sig": mo, "new_sig": mn}
                detail = {"first_seen_on": {"old": S.render_params(old), "new": S.render_params(new)}}
                if kind == "miss":
                    m = S.accept_mask(mo, shapes) & ~S.accept_mask(mn, shapes)
                    wit = [shapes[b] for b in range(len(shapes)) if m >> b & 1][:3]
                    detail["calls_that_break"] = [f"f({', '.join(['0'] * k + [f'{n}=0' for n in kws])})" for k, kws in wit]
                    summary = f"def f({S.render_params(mo)}) -> def f({S.render_params(mn)}) breaks {detail['calls_that_break'][0]} but nothing is reported"
                else:
                    summary = f"{kind} {info}: def f({S.render_params(mo)}) -> def f({S.render_params(mn)})"
                acc.violation(key, summary, case, detail, size=len(mo) + len(mn))
    return acc.result()


def replay(case):
    boot.boot()
    import griffe

    if "decorator" in case or ("old_sig" not in case and not case.get("dynamic_defaults")):
        from mc.core.driver import Acc as _Acc

        acc = _Acc()
        (_run_inherited if case.get("inherited") else _run_underscore_names if "underscore" in case else _run_decorated if "decorator" in case else _run_default_shapes)(griffe, acc)
        return [(k, v["summary"], v["detail"]) for k, v in acc.violations.items()]
    old = tuple(tuple(p) for p in case.get("old_sig", ()))
    new = tuple(tuple(p) for p in case["new_sig"])
    names = sorted({p[0] for p in old} | {p[0] for p in new} | {"a"})
    shapes = S.call_shapes(names, 4)
    ident = {n: n for n in "abcdefghijklmnopqrstuvwxyz"}
    if case.get("dynamic_defaults"):
        from mc.core.driver import Acc as _Acc

        acc = _Acc()
        _run_dynamic_defaults(griffe, acc)
        return [(k, v["summary"], v["detail"]) for k, v in acc.violations.items()]
    if case.get("dynamic"):
        dyn = _dynamic_mods(griffe, [old, new], ident)
        kinds_dyn = sorted(b.kind.value for b in griffe.find_breaking_changes(dyn[0], dyn[1]) if b.obj.name == "f")
        kinds_st = sorted(b.kind.value for b in griffe.find_breaking_changes(_mod_for(griffe, old, ident), _mod_for(griffe, new, ident)))
        if kinds_dyn == kinds_st:
            return []
        lost, extra = sorted(set(kinds_st) - set(kinds_dyn)), sorted(set(kinds_dyn) - set(kinds_st))
        return [(f"dynamic-differs/{'lost:' + lost[0] if lost else 'extra:' + extra[0] if extra else 'count'}", f"visited {kinds_st}, inspected {kinds_dyn}", None)]
    probs, kinds = judge(griffe, old, new, S.accept_mask(old, shapes), S.accept_mask(new, shapes),
                         _mod_for(griffe, old, ident), _mod_for(griffe, new, ident), ident)
    return [(_key_for(k, i, old, new), f"{k} {i}: ({S.render_params(old)}) -> ({S.render_params(new)}); reported={kinds}", None) for k, i in probs]

MANIFEST = {
    "category": "exploration",
    "text": "Bounded exhaustive exploration: every ordered pair of legal signatures (visited; in the quick tier also loaded by runtime inspection, whose comparison must say the same) over 2 (quick) / 3 (thorough) names with up to 2 / 3 parameters, all five kinds, defaults none/0/1, is diffed with the real find_breaking_changes and judged against every call shape by really calling compiled defs in CPython. Complete inside the bound, silent outside it. Further families: functions under decorators that leave the signature alone (some named like typing.overload without being it) must be compared like the undecorated ones; default expressions that differ only in grouping are different defaults. The quick tier also holds the three-parameter signatures without defaults / with one common default; identifiers that look special (leading double underscore) are judged over all two-parameter pairs, with the kinds compared to inspect.signature; signatures reached through inheritance (chains of two and three classes, nearest / shadowed / far-end definition changed) must be reported for the public class.",
    "note": "Trusts CPython 3.12 as the binder and the alpha-renaming argument for identifiers outside the alphabet; says nothing about signatures with more parameters than the bound.",
    "technique": "model checking by exhaustive small-scope enumeration of signature pairs x call shapes on the real code, CPython as oracle",
}
