"""C09 — Full JSON dumps conform to the published schema.

The C08 corpus restricted to packages loaded from files on disk (static and forced inspection), with and without alias
resolution, x docstring parser in {none, google, numpy, sphinx} (so that `docstring.parsed` carries every section kind; the
corpus contains rich docstrings in all three styles).
Oracle: jsonschema Draft7Validator(docs/schema.json) reports no error on json.loads(as_json(full=True)).
The evidence counts which schema branches were exercised (object kinds x optional keys x expression classes x section kinds).
Keys: json pointer with names/indices erased + failing validator keyword, descending into the deepest sub-error.
"""
from __future__ import annotations

import json
import os

from mc.core import boot, sandbox
from mc.core.driver import Acc
from mc.gen import corpus

PROPERTY = "C09"
LEVEL = "exploration"
NSHARDS = 48
RULE = (
    "every on-disk corpus case x agent x alias resolution x docstring parser; non-trivial = the dump contains at least one function, class or alias; "
    "distinct by construction; exercised schema branches are counted in coverage.counters"
)
ASSUMPTIONS = ["docs/schema.json in the working tree is 'the published schema'", "jsonschema Draft-7 semantics"]
MANIFEST = {
    "category": "exploration",
    "text": "Bounded exhaustive enumeration of the on-disk model corpus x {static, inspection} x {aliases unresolved, resolved} x 4 docstring parsers; every full dump (API, and `griffe dump -f` into one file or one file per package) is validated against docs/schema.json with jsonschema; coverage counters show which kinds / optional keys / expression classes / section kinds were produced. Layouts include namespace portions out of alphabetical order and wildcard imports that do not run (type-guarded, stub-only). Layouts include a name imported through a re-export chain; features include dataclass options unpacked from dictionaries and more un-annotated docstring items than the signature's tuple has elements.",
    "note": "Complete for the corpus; silence on a schema branch that the corpus never produces means nothing (see counters).",
    "technique": "model checking by exhaustive small-scope enumeration of object trees validated against the published JSON schema",
}
PARSERS = [None, "google", "numpy", "sphinx"]


def bounds(tier):
    return {"features": corpus.BASE, "expression_features": len(corpus.EXPR_FEATURES), "containers": corpus.CONTAINERS, "parsers": ["none", "google", "numpy", "sphinx"]}


def shards(tier):
    return list(range(NSHARDS))


_schema = None


def _validator():
    global _schema
    if _schema is None:
        import jsonschema

        path = os.path.join(boot.REPO_ROOT, "docs", "schema.json")
        _schema = jsonschema.Draft7Validator(json.load(open(path)))
    return _schema


def _deepest(err):
    """Descend oneOf/anyOf errors into the branch that was meant (the one whose `kind` constant matches), then to its deepest sub-error."""
    while err.context:
        branches: dict = {}
        for e in err.context:
            branches.setdefault(e.relative_schema_path[0] if e.relative_schema_path else 0, []).append(e)
        meant = [es for es in branches.values() if not any(x.validator == "const" and list(x.relative_path)[-1:] == ["kind"] for x in es)]
        pool = min(meant, key=len) if meant else min(branches.values(), key=len)
        err = max(pool, key=lambda e: (len(e.absolute_path), -len(e.context or ())))
    return err


def _pointer(err, doc):
    parts = []
    node = doc
    path = list(err.absolute_path)
    i = 0
    while i < len(path):
        p = path[i]
        if p == "members" and isinstance(node, dict) and i + 1 < len(path):
            node = node["members"][path[i + 1]]
            parts.append(str(node.get("kind", "member")) if isinstance(node, dict) else "member")
            i += 2
            continue
        parts.append("[]" if isinstance(p, int) else str(p))
        try:
            node = node[p]
        except Exception:  # noqa: BLE001
            node = {}
        i += 1
    # keep the path from the innermost object kind on: where in the package the object sits is irrelevant
    kinds = [i for i, x in enumerate(parts) if x in ("module", "class", "function", "attribute", "alias")]
    if kinds:
        parts = parts[kinds[-1]:]
    elif parts:
        parts = ["module"] + parts
    return "/".join(parts)


def _count_branches(acc, node):
    if isinstance(node, dict):
        # (a `members` mapping can itself have members called kind / name / cls: only strings are tags)
        if isinstance(node.get("kind"), str) and isinstance(node.get("name"), str):
            acc.counters["kind:" + str(node["kind"])] += 1
            for k in node:
                acc.counters[f"key:{node['kind']}.{k}"] += 1
        if isinstance(node.get("cls"), str):
            acc.counters["expr:" + node["cls"]] += 1
        if isinstance(node.get("kind"), str) and "value" in node and "name" not in node:
            acc.counters["section:" + str(node["kind"])] += 1
        for v in node.values():
            _count_branches(acc, v)
    elif isinstance(node, list):
        for v in node:
            _count_branches(acc, v)


def run_case(griffe, acc, case):
    container, f1, f2, agent = case
    if container == "builtin":
        return
    v = _validator()
    # (the working directory is part of the input: relative_filepath depends on it.  Inside the scratch root for every run,
    # and once more from an unrelated directory for the first parser)
    for resolve, parser, where in [(r, p, "inside") for r in (False, True) for p in PARSERS] + [(False, PARSERS[0], "outside")]:
        if True:
            cd = {"case": list(case), "resolve_aliases": resolve, "parser": parser}
            if where == "outside":
                cd["cwd"] = "unrelated directory"
            with sandbox.scratch_dir("c09") as d, sandbox.interpreter_state():
                files, top, subs = corpus.files_for(container, f1, f2)
                sandbox.write_tree(d, files)
                sps = [os.path.join(d, s) for s in subs]
                cwd = os.getcwd()
                size = sum(len(x) for x in files.values()) + (1 if resolve else 0) + (1 if parser else 0)
                try:
                    os.makedirs(os.path.join(d, "unrelated-cwd"), exist_ok=True)
                    os.chdir(d if where == "inside" else os.path.join(d, "unrelated-cwd"))  # (not "/": every absolute path is relative to it)
                    loader = griffe.GriffeLoader(search_paths=sps, allow_inspection=(agent == "inspect"), force_inspection=(agent == "inspect"), docstring_parser=griffe.Parser(parser) if parser else None)
                    mod = loader.load(top, try_relative_path=False, find_stubs_package=container.startswith("stubs-package"))
                    if resolve:
                        loader.resolve_aliases(implicit=True, external=False)
                    try:
                        doc = json.loads(mod.as_json(full=True))
                    except Exception as e:  # noqa: BLE001
                        acc.case(cd, outcome="serialize-raise:" + type(e).__name__, nontrivial=False)
                        acc.violation(f"serialize/{type(e).__name__}/{container}/{agent}" + ("/cwd-outside" if where == "outside" else ""), f"as_json(full=True) raised {e!r}", cd, None, size=size)
                        continue
                except Exception as e:  # noqa: BLE001
                    acc.case(cd, outcome="load-failed:" + type(e).__name__, nontrivial=False)
                    acc.counters["load_failed"] += 1
                    continue
                finally:
                    os.chdir(cwd)
            nontrivial = any(m.get("kind") in ("function", "class", "alias") for m in doc.get("members", {}).values())
            errors = list(v.iter_errors(doc))
            acc.case({"case": list(case), "resolve": resolve, "parser": parser}, outcome=f"{container}/{agent}:{'invalid' if errors else 'valid'}", nontrivial=nontrivial)
            _count_branches(acc, doc)
            acc.observe(len(errors))
            seen = set()
            for err in errors:
                deep = _deepest(err)
                ptr = _pointer(deep, doc)
                key = f"schema/{ptr}/{deep.validator}/{agent}"
                if key in seen:
                    continue
                seen.add(key)
                acc.violation(key, f"{ptr}: {deep.message[:160]}", {**cd, "files": files}, {"validator": deep.validator, "schema_path": "/".join(map(str, deep.absolute_schema_path))[:200]}, size=size)


def _run_cli(griffe, acc):
    """The published schema describes what `griffe dump -f` writes: one file holding every package, or one file per package ({package} template)."""
    from _griffe import cli

    v = _validator()
    for container in ("module", "package", "namespace"):
        for feature in ("function", "class", "imports", "dataclass"):
            for mode in ("single-file", "per-package"):
                for resolve in (False, True):
                    cd = {"case": [container, feature, None, "static"], "cli": mode, "resolve_aliases": resolve}
                    with sandbox.scratch_dir("c09c") as d, sandbox.interpreter_state():
                        files, top, subs = corpus.files_for(container, feature, None)
                        sandbox.write_tree(d, files)
                        sps = [os.path.join(d, s) for s in subs]
                        out = os.path.join(d, "dump-{package}.json" if mode == "per-package" else "dump.json")
                        args = ["dump", top, "-f", "-o", out, "-X"] + [x for sp in sps for x in ("-s", sp)] + (["-r", "-I", "--no-resolve-external"] if resolve else [])
                        cwd = os.getcwd()
                        try:
                            os.chdir(d)
                            cli.main(args)
                            text = open(out.replace("{package}", top)).read()
                            data = json.loads(text)
                            doc = data if mode == "per-package" else data[top]
                        except BaseException as e:  # noqa: BLE001
                            acc.violation(f"cli/{type(e).__name__}/{mode}", f"griffe {' '.join(a if not a.startswith('/') else '<p>' for a in args)} failed: {e!r}", cd, None, size=1)
                            continue
                        finally:
                            os.chdir(cwd)
                    errors = list(v.iter_errors(doc))
                    acc.case(cd, outcome=f"cli/{mode}:{'invalid' if errors else 'valid'}", nontrivial=True)
                    acc.observe(len(errors))
                    seen = set()
                    for err in errors:
                        deep = _deepest(err)
                        ptr = _pointer(deep, doc)
                        key = f"schema/{ptr}/{deep.validator}/cli-{mode}"
                        if key not in seen:
                            seen.add(key)
                            acc.violation(key, f"`griffe dump -f` ({mode}): {ptr}: {deep.message[:160]}", cd, None, size=1)


def run_shard(shard, tier):
    boot.boot()
    import griffe

    acc = Acc()
    if shard == 0:
        _run_cli(griffe, acc)
    for idx, case in enumerate(corpus.cases(tier)):
        if idx % NSHARDS != shard:
            continue
        try:
            run_case(griffe, acc, case)
        except Exception as e:  # noqa: BLE001
            import traceback

            acc.violation(f"harness-error/{type(e).__name__}", repr(e), {"case": list(case)}, {"tb": traceback.format_exc()[-900:]})
    return acc.result()


def replay(case):
    boot.boot()
    import griffe

    acc = Acc()
    if "cli" in case:
        _run_cli(griffe, acc)
    else:
        run_case(griffe, acc, tuple(case["case"]))
    return [(k, v["summary"], v["detail"]) for k, v in acc.violations.items()]
