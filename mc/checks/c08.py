"""C08 — JSON serialisation round-trips without loss.

Corpus (mc/gen/corpus.py): every pair of source features covering all object kinds and optional fields (functions with the
five parameter kinds, decorators, overloads, properties with setter/deleter, dataclasses, nested classes, inheritance,
attributes with docstrings, every import form incl. wildcard and TYPE_CHECKING imports, __all__, docstrings in three
styles), one feature per expression template (all mapped ast nodes), x container {module, package, namespace package over
two search paths, built-in module} x agent {static, forced inspection} x aliases {unresolved, resolved}.
Oracle ("loading it back" = the documented reload path: the MINIMAL dump is enough to rebuild everything):
  a. as_json(full=False) and as_json(full=True) return
  b. R = Module.from_json(minimal) returns;  R.as_json(full=False) == minimal  and  R.as_json(full=True) == full
  c. every ExprName in R has the same canonical_path as in the original tree
  d. `griffe dump` (real CLI entry point, output to a file) emits exactly json.dumps({pkg: tree}, cls=JSONEncoder, full=..,
     indent=2, sort_keys=True) of an API load with the same options
"""
from __future__ import annotations

import json
import os
import sys

from mc.core import boot, sandbox
from mc.core.driver import Acc
from mc.gen import corpus

PROPERTY = "C08"
LEVEL = "exploration"
NSHARDS = 48
RULE = (
    "every corpus case (container x feature pair x agent) x aliases unresolved/resolved, each judged in both dump modes; non-trivial = the tree contains at least one "
    "function, class or alias (not just a bare module); distinct by construction"
)
ASSUMPTIONS = ["'loading it back' means Module.from_json of the minimal dump (JSONEncoder docstring: the full data can be inferred again); reloading the FULL dump is not promised by code or docs and is not judged",
               "built-in modules: a fixed list of five quick-to-import ones"]
MANIFEST = {
    "category": "exploration",
    "text": "Bounded exhaustive enumeration of the model corpus (all feature pairs x 4 containers + 9 further directory layouts x 2 agents x aliases resolved or not, one case per expression template) with serialise / reload-from-minimal / re-serialise identity in both dump modes, object-level equivalence of the reloaded tree (kinds, names, line spans incl. alias spans, docstrings, labels, signatures, expressions, alias targets read through the object API), name-resolution equality on the reloaded tree, and byte equality of the real `griffe dump` CLI output with the API serialisation (package requested by name, by directory path and through a submodule). Layouts include namespace portions out of alphabetical order and wildcard imports that do not run (type-guarded, stub-only). Layouts include a name imported through a re-export chain; features include dataclass options unpacked from dictionaries and more un-annotated docstring items than the signature's tuple has elements.",
    "note": "Complete for the corpus; fields outside the corpus features are not covered.",
    "technique": "model checking by exhaustive small-scope enumeration of object trees with serialise/reload/re-serialise identity on the real encoder, decoder and CLI",
}


def bounds(tier):
    return {"features": corpus.BASE, "expression_features": len(corpus.EXPR_FEATURES), "containers": corpus.CONTAINERS + ["builtin"], "agents": ["static", "inspect"], "builtins": corpus.BUILTINS}


def shards(tier):
    return list(range(NSHARDS))


def _frame(e):
    import traceback

    tb = traceback.extract_tb(e.__traceback__)
    return next((f.name for f in reversed(tb) if "_griffe" in f.filename), tb[-1].name)


def _first_diff(a, b, path=""):
    if type(a) is not type(b):
        return path, a, b
    if isinstance(a, dict):
        for k in sorted(set(a) | set(b)):
            if k not in a or k not in b:
                return f"{path}/{k}", a.get(k, "<absent>"), b.get(k, "<absent>")
            d = _first_diff(a[k], b[k], f"{path}/{k}")
            if d:
                return d
        return None
    if isinstance(a, list):
        if len(a) != len(b):
            return path + "/<len>", len(a), len(b)
        for i, (x, y) in enumerate(zip(a, b)):
            d = _first_diff(x, y, f"{path}/[]")
            if d:
                return d
        return None
    return None if a == b else (path, a, b)


def _pointer_class(ptr, tree):
    """Erase member names: /members/K/members/f/parameters/[]/default -> class/function/parameters/[]/default"""
    parts = [p for p in ptr.split("/") if p]
    out = []
    node = tree
    i = 0
    while i < len(parts):
        p = parts[i]
        if p == "members" and isinstance(node, dict) and i + 1 < len(parts):
            node = node.get("members", {})
            name = parts[i + 1]
            node = node.get(name, {}) if isinstance(node, dict) else {}
            out.append(node.get("kind", "member") if isinstance(node, dict) else "member")
            i += 2
            continue
        out.append(p)
        node = node.get(p, {}) if isinstance(node, dict) else {}
        i += 1
    return "/".join(out)


def _names(obj, acc_list, griffe, prefix=""):
    """Collect (where, name, canonical_path) for every ExprName in the tree."""
    from _griffe import expressions as E

    import dataclasses

    def every_node(e, seen):
        """every expression object reachable through the dataclass fields (back-references like ExprKeyword.function included, `parent` links excluded)"""
        if isinstance(e, (list, tuple)):
            for x in e:
                yield from every_node(x, seen)
        elif isinstance(e, E.Expr):
            # (no de-duplication by identity: a keyword's `function` is the call's own callee object before, an equal copy after a reload)
            yield e
            for f in dataclasses.fields(e):
                if f.name != "parent":
                    yield from every_node(getattr(e, f.name), seen)

    def expr_names(e, where):
        if isinstance(e, E.Expr):
            acc_list.append((where, "<str>", str(e)))  # the reloaded expression must also print the same
            for x in e.iterate(flat=True):
                if isinstance(x, E.ExprName):
                    try:
                        cp = x.canonical_path
                    except Exception as ex:  # noqa: BLE001
                        cp = "RAISE:" + type(ex).__name__
                    acc_list.append((where, x.name, cp))
            # every node's own canonical path (keywords resolve through the called function, attributes through their chain, ...)
            for x in every_node(e, set()):
                try:
                    cp = x.canonical_path
                except Exception as ex:  # noqa: BLE001
                    cp = "RAISE:" + type(ex).__name__
                acc_list.append((where, "<" + type(x).__name__ + ">", cp))

    for name, m in obj.members.items():
        where = f"{prefix}{name}"
        if m.is_alias:
            continue
        if m.is_function:
            for p in m.parameters:
                expr_names(p.annotation, where + "(param-annotation)")
                expr_names(p.default, where + "(param-default)")
            expr_names(m.returns, where + "(returns)")
            for d in m.decorators:
                expr_names(d.value, where + "(decorator)")
        elif m.is_attribute:
            expr_names(m.annotation, where + "(annotation)")
            expr_names(m.value, where + "(value)")
        elif m.is_class:
            for b in m.bases:
                expr_names(b, where + "(base)")
            for d in m.decorators:
                expr_names(d.value, where + "(decorator)")
            _names(m, acc_list, griffe, where + ".")
        elif m.is_module:
            _names(m, acc_list, griffe, where + ".")


def _view(obj, out, prefix=""):
    """The fields the property names, read through the object API (not through the encoder): path -> field -> value."""
    def ex(e):
        return None if e is None else str(e)

    def doc(o):
        d = o.docstring
        return None if d is None else (d.value, d.lineno, d.endlineno)

    for name, m in obj.members.items():
        where = f"{prefix}{name}"
        if m.is_alias:
            out[where] = {"kind": "alias", "name": m.name, "span": (m.alias_lineno, m.alias_endlineno), "target": m.target_path}
            continue
        v = {"kind": m.kind.value, "name": m.name, "span": (m.lineno, m.endlineno), "docstring": doc(m), "labels": sorted(m.labels)}
        if m.is_function:
            v["parameters"] = [(p.name, getattr(p.kind, "value", p.kind), ex(p.annotation), ex(p.default)) for p in m.parameters]
            v["returns"] = ex(m.returns)
            v["decorators"] = [(ex(d.value), d.lineno, d.endlineno) for d in m.decorators]
        elif m.is_attribute:
            v["value"], v["annotation"] = ex(m.value), ex(m.annotation)
        elif m.is_class:
            v["bases"] = [ex(b) for b in m.bases]
            v["decorators"] = [(ex(d.value), d.lineno, d.endlineno) for d in m.decorators]
        out[where] = v
        if m.is_class or m.is_module:
            _view(m, out, where + ".")


def run_case(griffe, acc, case):
    from _griffe.encoders import JSONEncoder

    container, f1, f2, agent = case
    for resolve in (False, True):
        cd = {"case": list(case), "resolve_aliases": resolve}
        ctx = f"{container}/{agent}"
        with sandbox.scratch_dir("c08") as d, sandbox.interpreter_state():
            if container == "builtin":
                top, sps, files = f1, [], {}
            else:
                files, top, subs = corpus.files_for(container, f1, f2)
                sandbox.write_tree(d, files)
                sps = [os.path.join(d, s) for s in subs]
                cd["files"] = files
            size = sum(len(v) for v in files.values()) + (1 if resolve else 0)
            try:
                loader = griffe.GriffeLoader(search_paths=sps, allow_inspection=(agent == "inspect"), force_inspection=(agent == "inspect" and container != "builtin"))
                mod = loader.load(top, try_relative_path=False, find_stubs_package=container.startswith("stubs-package"))
                if resolve:
                    loader.resolve_aliases(implicit=True, external=False)
            except Exception as e:  # noqa: BLE001
                acc.case(cd, outcome="load-failed:" + type(e).__name__, nontrivial=False)
                acc.counters["load_failed"] += 1
                continue
            nontrivial = any(m.is_alias or m.is_function or m.is_class for m in mod.members.values())
            # a. serialise
            dumps = {}
            failed = False
            for full in (False, True):
                try:
                    dumps[full] = mod.as_json(full=full)
                except Exception as e:  # noqa: BLE001
                    acc.violation(f"serialize/{type(e).__name__}@{_frame(e)}/{'full' if full else 'minimal'}/{ctx}", f"as_json(full={full}) raised {e!r}", cd, None, size=size)
                    failed = True
            acc.case({"case": cd["case"], "resolve": resolve}, outcome=f"{ctx}:{'serialize-raise' if failed else 'ok'}", nontrivial=nontrivial)
            if False not in dumps:
                continue
            # b. reload from minimal
            try:
                reloaded = griffe.Module.from_json(dumps[False])
            except Exception as e:  # noqa: BLE001
                acc.violation(f"reload/{type(e).__name__}@{_frame(e)}/{ctx}", f"Module.from_json(minimal) raised {e!r}", cd, None, size=size)
                continue
            acc.observe(len(dumps[False].replace(d, "<root>")))
            for full in (False, True):
                if full not in dumps:
                    continue
                try:
                    again = reloaded.as_json(full=full)
                except Exception as e:  # noqa: BLE001
                    acc.violation(f"reserialize/{type(e).__name__}@{_frame(e)}/{'full' if full else 'minimal'}/{ctx}", f"reloaded.as_json(full={full}) raised {e!r}", cd, None, size=size)
                    continue
                if again != dumps[full]:
                    a, b = json.loads(dumps[full]), json.loads(again)
                    dd = _first_diff(a, b)
                    ptr = _pointer_class(dd[0], a) if dd else "order-only"
                    acc.violation(f"diff/{'full' if full else 'minimal'}/{ptr}/{agent}", f"reloaded tree serialises differently at {dd[0] if dd else '?'}: original {str(dd[1])[:80]!r}, reloaded {str(dd[2])[:80]!r}" if dd else "key order differs", cd, None, size=size)
            # b2. the reloaded tree is equivalent, judged on the objects themselves (an encoder that drops or confuses a field reaches a
            # fixed point after one round trip, so the JSON comparison above cannot see it)
            v1, v2 = {"<root>": {"docstring": None if mod.docstring is None else (mod.docstring.value, mod.docstring.lineno, mod.docstring.endlineno), "labels": sorted(mod.labels)}}, {}
            v2["<root>"] = {"docstring": None if reloaded.docstring is None else (reloaded.docstring.value, reloaded.docstring.lineno, reloaded.docstring.endlineno), "labels": sorted(reloaded.labels)}
            try:
                _view(mod, v1)
                _view(reloaded, v2)
            except Exception as e:  # noqa: BLE001
                acc.violation(f"model/raise/{type(e).__name__}@{_frame(e)}/{agent}", f"reading the reloaded tree raised {e!r}", cd, None, size=size)
            else:
                if set(v1) != set(v2):
                    acc.violation(f"model/members/{agent}", f"reloaded tree has different members: only before {sorted(set(v1) - set(v2))[:3]}, only after {sorted(set(v2) - set(v1))[:3]}", cd, None, size=size)
                for where in v1:
                    if where in v2 and v1[where] != v2[where]:
                        f = next(k for k in v1[where] if v1[where].get(k) != v2[where].get(k))
                        acc.violation(f"model/{v1[where].get('kind', 'module')}/{f}/{agent}", f"{where}.{f}: loaded {str(v1[where][f])[:90]!r}, after JSON round trip {str(v2[where].get(f))[:90]!r}", cd, None, size=size)
                        break
            # c. names resolve as before (static trees: inspection stores no resolvable expression parents)
            try:
                n1, n2 = [], []
                _names(mod, n1, griffe)
                _names(reloaded, n2, griffe)
                if n1 != n2:
                    bad = next(((x, y) for x, y in zip(n1, n2) if x != y), (n1[len(n2):][:1], n2[len(n1):][:1]))
                    first = bad[0] if bad and bad[0] and isinstance(bad[0], tuple) else None
                    if first is not None and not str(first[1]).startswith("<") and str(first[2]).endswith(f"({first[1]})"):
                        shape = "init-parameter"  # a name that is a parameter of the enclosing __init__: Class(param)
                    elif first is not None and str(first[1]).startswith("<") and first[1] != "<str>":
                        shape = "node:" + str(first[1]).strip("<>")
                    else:
                        shape = "name"
                    acc.violation(f"names/{agent}/{str(bad[0][0]).split('(')[-1].rstrip(')') if bad and bad[0] else 'count'}/{shape}", f"ExprName resolution differs after reload: {bad}", cd, None, size=size)
            except Exception as e:  # noqa: BLE001
                acc.violation(f"names/raise/{type(e).__name__}", repr(e), cd, None, size=size)
            # d. CLI
            if container != "builtin" and agent == "static":
                from _griffe import cli

                # the package is requested by name (with search paths), by the path of its top-level file / directory, or through one of its submodules
                spellings = [("name", top)]
                if container in ("package", "pkg-nested"):
                    # (a single-file top-level module cannot be requested by path: the finder takes its directory for the package, upstream too)
                    spellings.append(("path", os.path.join(sps[0], top)))
                if container == "package":
                    spellings.append(("submodule", top + ".sub"))
                if container in ("module", "package", "namespace"):
                    spellings.append(("per-package", top))  # -o with a {package} template: one file per package, holding that package's own serialisation
                for spelling, request in spellings:
                  for full in (False, True):
                    out = os.path.join(d, "out.json")
                    out_arg = out
                    if spelling == "per-package":
                        out_arg = os.path.join(d, "out-{package}.json")
                        out = os.path.join(d, f"out-{top}.json")
                    if os.path.exists(out):
                        os.unlink(out)
                    args = ["dump", request, "-o", out_arg, "-X"] + (["--find-stubs-packages"] if container.startswith("stubs-package") else []) + ([x for sp in sps for x in ("-s", sp)] if spelling != "path" else []) + (["-f"] if full else []) + (["-r", "-I", "--no-resolve-external"] if resolve else [])
                    try:
                        rc = cli.main(args)
                        got = open(out).read()
                    except BaseException as e:  # noqa: BLE001
                        acc.violation(f"cli/raise/{type(e).__name__}/{container}", f"griffe {' '.join(args)} raised {e!r}", cd, None, size=size)
                        continue
                    try:
                        exp = mod.as_json(indent=2, full=full, sort_keys=True) if spelling == "per-package" else json.dumps({top: mod}, cls=JSONEncoder, indent=2, full=full, sort_keys=True)
                    except Exception:  # noqa: BLE001
                        continue  # already reported under serialize/
                    if got.rstrip("\n") != exp.rstrip("\n") or rc != 0:
                        dd = _first_diff(json.loads(exp), json.loads(got)) if got.strip().startswith("{") else ("<not json>", "", got[:80])
                        acc.violation(f"cli/diff/{'full' if full else 'minimal'}/{container}/{'resolved' if resolve else 'unresolved'}" + ("" if spelling == "name" else "/by-" + spelling), f"`griffe {' '.join(a if not a.startswith('/') else '<p>' for a in args)}` (rc={rc}) differs from the API serialisation at {dd[0] if dd else 'whitespace'}", cd, None, size=size)


def run_shard(shard, tier):
    boot.boot()
    import griffe

    acc = Acc()
    for idx, case in enumerate(corpus.cases(tier)):
        if idx % NSHARDS != shard:
            continue
        try:
            run_case(griffe, acc, case)
        except Exception as e:  # noqa: BLE001
            import traceback

            acc.violation(f"harness-error/{type(e).__name__}", repr(e), {"case": list(case)}, {"tb": traceback.format_exc()[-900:]})
    return acc.result()


def replay(case):
    boot.boot()
    import griffe

    acc = Acc()
    run_case(griffe, acc, tuple(case["case"]))
    return [(k, v["summary"], v["detail"]) for k, v in acc.violations.items()]
