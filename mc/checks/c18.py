"""C18 — Synthesised dataclass constructors equal the ones CPython generates.

S  single classes: every ordered list of <= 2 (quick) / 3 (thorough) fields over 17 field forms x every decorator variant
   (quick additionally: 3 fields under plain @dataclass).
H  hierarchies A <- B <- C with colliding field names (A: a,b  B: b,c  C: c,a), explored by deviation from the all-plain
   hierarchy: every set of <= 2 (quick) / 3 (thorough) deviations from a menu (field form changes, field removals,
   decorator changes incl. "not a dataclass", hand-written __init__).
Oracle: the same source executed by CPython: inspect.signature of the class's own __init__ (names, order, kinds,
required-ness); no own __init__ in vars(cls) => Griffe must not synthesise one; hand-written __init__ is kept; is_dataclass
<=> "dataclass" label.  Sources CPython rejects are counted and only required not to crash the loader.
A failing case is reduced (drop fields / revert deviations while the same mismatch persists) and keyed by what remains.
"""
from __future__ import annotations

import dataclasses
import inspect
import itertools
import os

from mc.core import boot, sandbox
from mc.core.driver import Acc

PROPERTY = "C18"
LEVEL = "exploration"
NSHARDS = 48
RULE = (
    "all field lists up to the bound x decorator variants, and all deviation sets up to the bound on a 3-level hierarchy with colliding names; "
    "non-trivial = CPython accepts the source and at least one class gets a generated __init__ with >= 1 parameter besides self; distinct by construction"
)
ASSUMPTIONS = ["CPython 3.12 dataclasses module is the reference", "field types/values are fixed representatives (int, 0, list)"]
MANIFEST = {
    "category": "exploration",
    "text": "Bounded exhaustive enumeration of dataclass definitions (17 field forms, <= 2/3 fields, 15 decorator variants) and of deviation sets (<= 2/3) on a depth-3 hierarchy with colliding field names; each source is loaded statically through the real loader with the built-in dataclasses extension and compared with inspect.signature of the __init__ CPython generates for the executed source; families for nested classes, diamonds, and hierarchies spread over three modules of a package (bases and the dataclasses names arriving through imports and wildcards). Field forms include the bare MISSING sentinel as class-level value; in family XM the decorator can also come from a compatibility module of the package. Field forms include options unpacked from a module-level dictionary (plain and dotted spelling) and from a dictionary display; family XM has bases written with three dotted names and a ClassVar that reaches the module through the compatibility module.",
    "note": "CPython is the oracle; complete inside the bounds on fields, decorator arguments and deviations.",
    "technique": "model checking by exhaustive small-scope / deviation-bounded enumeration on the real loader, CPython dataclasses as oracle",
}

HEAD = (
    "import dataclasses\nfrom dataclasses import dataclass, field, KW_ONLY, InitVar\nfrom dataclasses import dataclass as dc\n"
    "import typing\nfrom typing import ClassVar\nopts = {'kw_only': True}\nfopts = {'default': 0}\n"
)
FORMS = {
    "plain": "{n}: int", "default": "{n}: int = 0", "field()": "{n}: int = field()", "field(default)": "{n}: int = field(default=0)",
    "field(factory)": "{n}: list = field(default_factory=list)", "field(init=False)": "{n}: int = field(init=False)",
    "field(init=False,default)": "{n}: int = field(init=False, default=0)", "field(kw_only)": "{n}: int = field(kw_only=True)",
    "field(default,kw_only)": "{n}: int = field(default=0, kw_only=True)", "field(kw_only=False)": "{n}: int = field(kw_only=False)", "KW_ONLY": "_: KW_ONLY", "ClassVar": "{n}: ClassVar[int] = 0",
    "InitVar": "{n}: InitVar[int]", "InitVar=": "{n}: InitVar[int] = 0", "unannotated": "{n} = 0",
    "property": "@property\n    def {n}(self) -> int: return 0", "method": "def {n}(self): ...", "dotted-field": "{n}: int = dataclasses.field(default=0)",
    "field(default=MISSING)": "{n}: int = field(default=dataclasses.MISSING)",
    "ClassVar-bare": "{n}: ClassVar = 0", "typing.ClassVar": "{n}: typing.ClassVar[int] = 0",
    # the sentinel itself as class-level value, without field(): no default for CPython (the way to make an inherited defaulted field required again)
    "bare-MISSING": "{n}: int = dataclasses.MISSING",
    # field options unpacked from a module-level dictionary (plain and dotted spelling of field) and from a dictionary display written in place
    "field(**opts)": "{n}: int = field(**fopts)", "dotted-field(**opts)": "{n}: int = dataclasses.field(**fopts)", "field(**{})": '{n}: int = field(**{{"default": 0}})',
}
FORM_NAMES = list(FORMS)
DECOS = {
    "@dataclass": "@dataclass", "@dataclass()": "@dataclass()", "@dataclasses.dataclass": "@dataclasses.dataclass", "@dc": "@dc",
    "init=True": "@dataclass(init=True)", "init=False": "@dataclass(init=False)", "kw_only=True": "@dataclass(kw_only=True)", "kw_only=False": "@dataclass(kw_only=False)",
    "init=True,kw_only=True": "@dataclass(init=True, kw_only=True)", "init=False,kw_only=True": "@dataclass(init=False, kw_only=True)",
    "init=True,kw_only=False": "@dataclass(init=True, kw_only=False)", "init=False,kw_only=False": "@dataclass(init=False, kw_only=False)",
    "frozen=True": "@dataclass(frozen=True)", "**opts": "@dataclass(**opts)", "dotted(kw_only=True)": "@dataclasses.dataclass(kw_only=True)",
    "none": "",
}
DECO_NAMES = [d for d in DECOS if d != "none"]
_MAXF = {"quick": 2, "thorough": 3}
_DEV = {"quick": 2, "thorough": 3}


def bounds(tier):
    return {"field_forms": FORM_NAMES, "decorators": DECO_NAMES, "max_fields": _MAXF[tier], "max_deviations": _DEV[tier]}


def _class_src(name, base, deco, fields, init=False):
    """fields: list of (field name, form name)"""
    lines = []
    if DECOS[deco]:
        lines.append(DECOS[deco])
    lines.append(f"class {name}{'(' + base + ')' if base else ''}:")
    body = []
    for n, form in fields:
        body.append("    " + FORMS[form].format(n=n))
    if init == "assigns":
        first = fields[0][0] if fields else "zz"
        body.append(f"    def __init__(self, hand, written=1):\n        self.{first} = hand\n        self.extra: int = written")
    elif init:
        body.append("    def __init__(self, hand, written=1): ...")
    if not body:
        body.append("    pass")
    return "\n".join(lines + body) + "\n"


# -- case spaces ------------------------------------------------------------------------------------------------


def single_cases(tier):
    maxf = _MAXF[tier]
    for n in range(0, maxf + 1):
        for forms in itertools.product(FORM_NAMES, repeat=n):
            for deco in DECO_NAMES:
                yield ("S", deco, forms)
    if tier == "quick":
        for forms in itertools.product(FORM_NAMES, repeat=3):
            yield ("S", "@dataclass", forms)


BASE_H = {
    "A": {"deco": "@dataclass", "fields": [("a", "plain"), ("b", "plain")], "init": False},
    "B": {"deco": "@dataclass", "fields": [("b", "plain"), ("c", "plain")], "init": False},
    "C": {"deco": "@dataclass", "fields": [("c", "plain"), ("a", "plain")], "init": False},
}
H_DECOS = ["none", "kw_only=True", "init=False", "@dataclass()", "frozen=True"]


def deviation_menu():
    menu = []
    for cls in "ABC":
        for i in range(2):
            for form in FORM_NAMES[1:]:
                menu.append(("form", cls, i, form))
            menu.append(("drop", cls, i))
        for d in H_DECOS:
            menu.append(("deco", cls, d))
        menu.append(("init", cls))
        menu.append(("init-assigns", cls))  # a hand-written __init__ that assigns the class's own first field and an annotated extra attribute
    return menu


def _compatible(devs):
    slots = set()
    for d in devs:
        slot = (d[0] if d[0] == "deco" else "init" if d[0] in ("init", "init-assigns") else "field", d[1], d[2] if d[0] in ("form", "drop") else None)
        if slot in slots:
            return False
        slots.add(slot)
    return True


def hierarchy_cases(tier):
    menu = deviation_menu()
    for k in range(0, _DEV[tier] + 1):
        for devs in itertools.combinations(range(len(menu)), k):
            ds = tuple(menu[i] for i in devs)
            if _compatible(ds):
                yield ("H", ds)


# N: dataclasses NESTED in another class: outer class plain / with a hand-written __init__ / itself a dataclass / two levels deep
N_OUTERS = ["plain", "with-init", "dataclass", "deep-with-init"]
N_FORMS = ["plain", "default", "field(init=False)", "field(kw_only)", "KW_ONLY", "InitVar", "ClassVar"]
N_DECOS = ["@dataclass", "kw_only=True", "init=False", "@dataclasses.dataclass"]


def nested_cases(tier):
    for outer in N_OUTERS:
        for deco in N_DECOS:
            for n in range(0, (2 if tier == "quick" else 3) + 1):
                for forms in itertools.product(N_FORMS, repeat=n):
                    for inner_h in (False, True):
                        yield ("N", outer, deco, forms, inner_h)


# D: diamonds. A(x, w) <- B, C <- D(B, C): B and C each leave x alone / re-declare it plain / with a default / as a non-field; both base orders.
# (CPython collects fields from the bases' __dataclass_fields__ in reverse MRO order, so a base that merely INHERITS x re-asserts A's version)
D_OVERRIDES = ["none", "plain", "default", "field(init=False,default)", "ClassVar"]


def diamond_cases(tier):
    for b in D_OVERRIDES:
        for c in D_OVERRIDES:
            for order in ("B, C", "C, B"):
                for own in ("none", "default"):
                    for mid_deco in ("@dataclass", "none"):
                        yield ("D", b, c, order, own, mid_deco)


def all_cases(tier):
    yield from single_cases(tier)
    yield from hierarchy_cases(tier)
    yield from nested_cases(tier)
    yield from diamond_cases(tier)


def shards(tier):
    return list(range(NSHARDS))


# -- running one case -------------------------------------------------------------------------------------------------


def model_of(case):
    """-> ordered {class name: {"base", "deco", "fields": [(name, form)], "init"}}"""
    if case[0] == "S":
        _, deco, forms = case
        return {"K": {"base": None, "deco": deco, "fields": [("abc"[i], f) for i, f in enumerate(forms)], "init": False}}
    _, devs = case
    h = {k: {"deco": v["deco"], "fields": list(v["fields"]), "init": v["init"]} for k, v in BASE_H.items()}
    drops = []
    for d in devs:
        if d[0] == "form":
            n = h[d[1]]["fields"][d[2]][0]
            h[d[1]]["fields"][d[2]] = (n, d[3])
        elif d[0] == "drop":
            drops.append((d[1], d[2]))
        elif d[0] == "deco":
            h[d[1]]["deco"] = d[2]
        elif d[0] == "init":
            h[d[1]]["init"] = True
        elif d[0] == "init-assigns":
            h[d[1]]["init"] = "assigns"
    for cls, i in drops:
        h[cls]["fields"][i] = None
    for cls, base in (("A", None), ("B", "A"), ("C", "B")):
        h[cls]["base"] = base
        h[cls]["fields"] = [f for f in h[cls]["fields"] if f]
    return h


def _indent(text, n):
    return "".join(("    " * n + l if l.strip() else l) for l in text.splitlines(True))


def source_of(case):
    if case[0] == "D":
        _, b, c, order, own, mid_deco = case
        src = HEAD + _class_src("A", None, "@dataclass", [("x", "plain"), ("w", "default")])
        src += _class_src("B", "A", mid_deco, [("x", b)] if b != "none" else [])
        src += _class_src("C", "A", "@dataclass", [("x", c)] if c != "none" else [])
        src += _class_src("D", order, "@dataclass", [("z", own)] if own != "none" else [])
        return src, ["A", "B", "C", "D"]
    if case[0] == "N":
        _, outer, deco, forms, inner_h = case
        inner = _class_src("K", None, deco, [("abc"[i], f) for i, f in enumerate(forms)])
        names = ["K"]
        if inner_h:
            inner += _class_src("K2", "K", "@dataclass", [("y", "default")]) + _class_src("K3", "K", "none", [])
            names += ["K2", "K3"]
        if outer == "plain":
            return HEAD + "class Outer:\n    ov = 1\n" + _indent(inner, 1), ["Outer." + n for n in names]
        if outer == "with-init":
            return HEAD + "class Outer:\n    def __init__(self, hand, written=1): ...\n" + _indent(inner, 1), ["Outer." + n for n in names]
        if outer == "dataclass":
            return HEAD + "@dataclass\nclass Outer:\n    o: int\n" + _indent(inner, 1), ["Outer"] + ["Outer." + n for n in names]
        return HEAD + "class Outer:\n    class Mid:\n        def __init__(self, hand, written=1): ...\n" + _indent(inner, 2), ["Outer.Mid." + n for n in names]
    m = model_of(case)
    src = HEAD
    for cls, d in m.items():
        src += _class_src(cls, d["base"], d["deco"], d["fields"], d["init"])
    return src, list(m)


CATEGORY = {
    # F init field, N field(init=False), I InitVar, C ClassVar, U other class attribute, K marker; "=" leaves a class-level value, "k" keyword-only
    "plain": "F", "default": "F=", "field()": "F", "field(default)": "F=", "field(factory)": "F=", "field(kw_only)": "Fk", "field(default,kw_only)": "Fk=", "field(kw_only=False)": "Fnk",
    "dotted-field": "F=", "InitVar": "I", "InitVar=": "I=", "field(init=False)": "N", "field(init=False,default)": "N=", "ClassVar": "C=",
    "unannotated": "U=", "method": "U=", "property": "U=", "KW_ONLY": "K", "field(default=MISSING)": "Fm", "bare-MISSING": "Fm", "field(**opts)": "F=", "dotted-field(**opts)": "F=", "field(**{})": "F=", "ClassVar-bare": "C=", "typing.ClassVar": "C=",
}


def signature_of(case, cname, pname):
    """Declaration chain (by category) of one parameter name from the top of the hierarchy down to `cname`.
    Decorator context is only part of the signature when the chain itself is all plain fields."""
    m = model_of(case)
    chain, decos = [], []
    for cls, d in m.items():
        forms = [f for n, f in d["fields"] if n == pname]
        if forms:
            chain.append("+".join(CATEGORY[f] for f in forms))
        if d["deco"] != "@dataclass":
            decos.append(d["deco"])
        if d["init"]:
            decos.append("handwritten-init")
        if cls == cname:
            break
    sig = ">".join(chain) or "-"
    if set(sig) <= set("F>") and decos:
        sig += "/" + ",".join(sorted(set(decos)))
    return sig


KIND = {
    inspect.Parameter.POSITIONAL_ONLY: "positional-only", inspect.Parameter.POSITIONAL_OR_KEYWORD: "positional or keyword",
    inspect.Parameter.VAR_POSITIONAL: "variadic positional", inspect.Parameter.KEYWORD_ONLY: "keyword-only", inspect.Parameter.VAR_KEYWORD: "variadic keyword",
}


def _sig_tuple(sig):
    return [(n, KIND[p.kind], p.default is inspect.Parameter.empty) for n, p in sig.parameters.items()]


def _gparams(params):
    return [(p.name, p.kind.value, bool(p.required)) for p in params]


_n = 0


def evaluate(griffe, case):
    """-> ("rejected"|"ok", problems[list of (what, class, detail)], nontrivial)"""
    global _n
    from _griffe.extensions import dataclasses as dcext

    src, classes = source_of(case)
    import sys
    import types

    pm = types.ModuleType("pkg_c18_exec")  # dataclasses looks the defining module up in sys.modules
    sys.modules["pkg_c18_exec"] = pm
    ns = pm.__dict__
    try:
        exec(compile(src, "<c18>", "exec"), ns)  # noqa: S102
        rejected = None
    except Exception as e:  # noqa: BLE001
        rejected = type(e).__name__
    finally:
        sys.modules.pop("pkg_c18_exec", None)
    dcext._dataclass_parameters.cache_clear()
    _n += 1
    with sandbox.scratch_dir("c18") as d:
        with open(os.path.join(d, "pkg_c18.py"), "w") as f:
            f.write(src)
        try:
            mod = griffe.load("pkg_c18", search_paths=[d], allow_inspection=False)
        except Exception as e:  # noqa: BLE001
            return ("rejected" if rejected else "ok"), [("load-raises-" + type(e).__name__, "-", repr(e))], False
    if rejected:
        return "rejected", [], False
    problems = []
    nontrivial = False
    for cname in classes:
        k, gc = ns[cname.split(".")[0]], mod.members[cname.split(".")[0]]
        for part in cname.split(".")[1:]:
            k, gc = vars(k)[part], gc.members[part]
        own = "__init__" in vars(k)
        gm = gc.members.get("__init__")
        if own:
            exp = _sig_tuple(inspect.signature(vars(k)["__init__"]))
            if len(exp) > 1:
                nontrivial = True
            if gm is None:
                problems.append(("init-missing", cname, f"CPython defines {cname}.__init__{exp} but Griffe has none"))
            else:
                got = _gparams(gm.parameters)
                gn, en = [g[0] for g in got], [e[0] for e in exp]
                if gn != en:
                    if sorted(gn) != sorted(en):
                        what = "names"
                        blamed = sorted(set(gn) ^ set(en))[0]
                    else:
                        what = "order"
                        blamed = next(e for g, e in zip(gn, en) if g != e)
                    problems.append((what, cname, f"{cname}.__init__ parameters {gn} != CPython {en}", blamed))
                elif [g[1] for g in got] != [e[1] for e in exp]:
                    blamed = next(e[0] for g, e in zip(got, exp) if g[1] != e[1])
                    problems.append(("kind", cname, f"{cname}.__init__ kinds {got} != CPython {exp}", blamed))
                elif [g[2] for g in got] != [e[2] for e in exp]:
                    blamed = next(e[0] for g, e in zip(got, exp) if g[2] != e[2])
                    problems.append(("required", cname, f"{cname}.__init__: Griffe says {blamed} is {'required' if dict((g[0], g[2]) for g in got)[blamed] else 'optional'}, CPython the opposite; {got} != {exp}", blamed))
                hand = "hand" in inspect.signature(vars(k)["__init__"]).parameters
                if hand and not (gm.lineno and gm.lineno > 0):
                    problems.append(("handwritten-replaced", cname, f"{cname} has a hand-written __init__ but Griffe shows a synthesised one"))
        elif gm is not None:
            problems.append(("init-spurious", cname, f"CPython generates no __init__ for {cname} (vars has none) but Griffe synthesises {_gparams(gm.parameters)}"))
        # inherited view
        init = k.__init__
        if init is not object.__init__:
            exp = _sig_tuple(inspect.signature(init))
            try:
                got = _gparams(gc.parameters)
            except Exception as e:  # noqa: BLE001
                got = "RAISE " + repr(e)
            if got != exp and not any(p[1] == cname for p in problems):
                # only blame the class itself when its ancestors agree (otherwise the ancestor's own problem explains it)
                anc_bad = any(p[1] != cname for p in problems)
                if not anc_bad:
                    problems.append(("class-parameters", cname, f"{cname}.parameters {got} != signature of the __init__ CPython would call {exp}"))
        if dataclasses.is_dataclass(k) != ("dataclass" in gc.labels):
            problems.append(("label", cname, f"is_dataclass({cname})={dataclasses.is_dataclass(k)} but labels={sorted(gc.labels)}"))
    return "ok", problems, nontrivial


# XM: the hierarchy spread over the modules of a package: the base dataclasses reach the subclass through an import (plain, renamed, dotted module, wildcard),
# the decorator itself may only arrive through the wildcard import; a third module inherits once more.  CPython imports the package; same comparison.
XM_ALLS = {"no-all": "", "all-classes": '__all__ = ["Base", "Mixin"]\n', "all-with-decorator": '__all__ = ["Base", "Mixin", "dataclass"]\n'}
XM_IMPORTS = {"from-import": ("from .base import Base, Mixin\n", "Mixin, Base"), "wildcard": ("from .base import *\n", "Mixin, Base"),
              "renamed": ("from pkg_c18x.base import Base as B, Mixin as M\n", "M, B"), "dotted-module": ("import pkg_c18x.base as pb\n", "pb.Mixin, pb.Base"),
              # bases written with three dotted names (every name resolves through the one before it)
              "dotted-three-names": ("import pkg_c18x.base\n", "pkg_c18x.base.Mixin, pkg_c18x.base.Base")}


def _xm_cases():
    for al in XM_ALLS:
        for imp in XM_IMPORTS:
            for deco in ("own-import", "through-wildcard", "through-compat-module"):
                if deco == "through-wildcard" and (imp != "wildcard" or al == "all-classes"):
                    continue
                if deco == "through-compat-module" and al != "no-all":
                    continue
                for grand in ("from-import", "wildcard"):
                    for init in ("empty", "wildcard"):
                        yield (al, imp, deco, grand, init)


def _xm_files(case):
    al, imp, deco, grand, init = case
    base = ("import dataclasses\nfrom dataclasses import dataclass, field, KW_ONLY\n" + XM_ALLS[al] +
            "@dataclass\nclass Base:\n    a: int\n    b: int = 0\n    _: KW_ONLY\n    k: int = 1\n@dataclass\nclass Mixin:\n    m: int = 5\n")
    istmt, bases = XM_IMPORTS[imp]
    if deco == "through-compat-module":
        # every module takes the decorator from a compatibility module of the package, which imports it from dataclasses
        base = base.replace("from dataclasses import dataclass, field, KW_ONLY\n", "from ._compat import dataclass, field, KW_ONLY, ClassVar\n")
        # (a class variable whose ClassVar reaches the module through the compatibility module too: not a field)
        base = base.replace("class Base:\n    a: int\n", "class Base:\n    registry: ClassVar[dict] = {}\n    a: int\n")
    child = istmt + ("from dataclasses import dataclass\n" if deco == "own-import" else "from pkg_c18x._compat import dataclass, field, KW_ONLY\n" if deco == "through-compat-module" else "") + f"@dataclass\nclass Child({bases}):\n" + ("    c: int = 2\n" if deco == "own-import" else "    c: int = field(default=2)\n    _: KW_ONLY\n    d: int = 3\n") + f"class Plain({bases.split(', ')[1]}):\n    pass\n"
    gimp = "from .child import Child\n" if grand == "from-import" else "from .child import *\n"
    grand_src = gimp + "import dataclasses\n@dataclasses.dataclass\nclass Grand(Child):\n    g: int = 3\n"
    return {"pkg_c18x/__init__.py": "" if init == "empty" else "from .grand import *\nfrom .child import *\n", "pkg_c18x/base.py": base, "pkg_c18x/child.py": child, "pkg_c18x/grand.py": grand_src,
            "pkg_c18x/_compat.py": "from dataclasses import dataclass, field, KW_ONLY\ntry:\n    from typing import ClassVar\nexcept ImportError:\n    from typing_extensions import ClassVar\n"}


def _run_xm(griffe, acc, only=None):
    import importlib
    import sys

    from _griffe.extensions import dataclasses as dcext

    for case in _xm_cases():
        if only is not None and case != only:
            continue
        files = _xm_files(case)
        cd = {"case": ["XM", *case], "files": files}
        with sandbox.scratch_dir("c18x") as d, sandbox.interpreter_state():
            sandbox.write_tree(d, files)
            sys.path.insert(0, d)
            importlib.invalidate_caches()
            try:
                mods = {m: importlib.import_module(m) for m in ("pkg_c18x.base", "pkg_c18x.child", "pkg_c18x.grand")}
                rejected = None
            except Exception as e:  # noqa: BLE001
                rejected = type(e).__name__
            for k in [k for k in sys.modules if k.split(".")[0] == "pkg_c18x"]:
                del sys.modules[k]
            if rejected:
                acc.case(cd, outcome="xm:rejected:" + rejected, nontrivial=False)
                continue
            dcext._dataclass_parameters.cache_clear()
            try:
                pkg = griffe.load("pkg_c18x", search_paths=[d], allow_inspection=False)
            except Exception as e:  # noqa: BLE001
                acc.violation(f"xm/load-raises-{type(e).__name__}", f"load raised {e!r}", cd, None, size=1)
                continue
            probs = []
            for modname, cname in (("pkg_c18x.base", "Base"), ("pkg_c18x.child", "Child"), ("pkg_c18x.child", "Plain"), ("pkg_c18x.grand", "Grand")):
                k = getattr(mods[modname], cname)
                gc = pkg[modname.split(".", 1)[1]].members[cname]
                own = "__init__" in vars(k)
                gm = gc.members.get("__init__")
                if own:
                    exp = _sig_tuple(inspect.signature(vars(k)["__init__"]))
                    got = None if gm is None else _gparams(gm.parameters)
                    if got != exp:
                        probs.append((f"init/{cname}", f"{modname}.{cname}.__init__: Griffe {got}, CPython {exp}"))
                elif gm is not None:
                    probs.append((f"init-spurious/{cname}", f"CPython generates no __init__ for {cname}, Griffe synthesises {_gparams(gm.parameters)}"))
                if dataclasses.is_dataclass(k) != ("dataclass" in gc.labels):
                    probs.append((f"label/{cname}", f"is_dataclass({cname})={dataclasses.is_dataclass(k)} but labels={sorted(gc.labels)}"))
            acc.case(cd, outcome="xm:" + ("mismatch" if probs else "ok"), nontrivial=True)
            acc.observe([p[0] for p in probs])
            if probs:
                # the top-most class with a problem explains the ones below it
                what, detail = probs[0]
                al, imp, deco, grand, init = case
                via = {"Base": al, "Child": f"{imp}/{deco}", "Plain": imp, "Grand": f"grand-{grand}"}[what.split("/")[1]]
                acc.violation(f"xm/{what}/{via}", detail, cd, None, size=1)


# XL: the hierarchy spread over two PACKAGES loaded one after the other with the same loader (dependency first): what the extension worked out for the
# first package (its fields, init-only variables included, which are then removed from the class members) must still hold when the second one is processed
XL_BASES = {
    "initvar": "import dataclasses\nfrom dataclasses import dataclass, InitVar\n@dataclass\nclass Base:\n    a: int\n    scale: InitVar[int]\n    b: int = 0\n",
    "kw-only": "import dataclasses\nfrom dataclasses import dataclass, KW_ONLY, field\n@dataclass\nclass Base:\n    a: int\n    _: KW_ONLY\n    k: int = field(default=1)\n",
    "init-false": "from dataclasses import dataclass, field\n@dataclass(init=False)\nclass Base:\n    a: int\n    h: int = field(init=False, default=0)\n    def __init__(self, hand): ...\n",
}


def _run_xl(griffe, acc, only=None):
    import importlib
    import sys

    from _griffe.extensions import dataclasses as dcext

    for bname, bsrc in XL_BASES.items():
        for mid in (False, True):
            if only is not None and (bname, mid) != only:
                continue
            files = {"xl18a/__init__.py": bsrc, "xl18b/__init__.py": "from dataclasses import dataclass\nfrom xl18a import Base\n@dataclass\nclass Derived(Base):\n    c: int = 1\n"}
            if mid:
                files["xl18a/__init__.py"] = bsrc + "class Mid(Base):\n    pass\n"
                files["xl18b/__init__.py"] = files["xl18b/__init__.py"].replace("import Base", "import Mid as Base")
            cd = {"case": ["XL", bname, mid], "files": files}
            with sandbox.scratch_dir("c18l") as d, sandbox.interpreter_state():
                sandbox.write_tree(d, files)
                sys.path.insert(0, d)
                importlib.invalidate_caches()
                try:
                    mods = {m: importlib.import_module(m) for m in ("xl18a", "xl18b")}
                except Exception as e:  # noqa: BLE001
                    acc.case(cd, outcome="xl:rejected:" + type(e).__name__, nontrivial=False)
                    continue
                finally:
                    for k in [k for k in sys.modules if k.split(".")[0] in ("xl18a", "xl18b")]:
                        del sys.modules[k]
                dcext._dataclass_parameters.cache_clear()
                try:
                    loader = griffe.GriffeLoader(search_paths=[d], allow_inspection=False)
                    loader.load("xl18a")
                    loader.load("xl18b")
                    loader.resolve_aliases(implicit=True, external=False)
                except Exception as e:  # noqa: BLE001
                    acc.violation(f"xl/load-raises-{type(e).__name__}", f"load raised {e!r}", cd, None, size=1)
                    continue
                probs = []
                for modname, cname in (("xl18a", "Base"), ("xl18b", "Derived")):
                    if mid and cname == "Base":
                        cname = "Mid"
                    k = getattr(mods[modname], cname if not (mid and modname == "xl18b") else "Derived")
                    gc = loader.modules_collection[modname].members["Derived" if modname == "xl18b" else cname]
                    if "__init__" in vars(k):
                        exp = _sig_tuple(inspect.signature(vars(k)["__init__"]))
                        gm = gc.members.get("__init__")
                        got = None if gm is None else _gparams(gm.parameters)
                        if got != exp:
                            probs.append((f"init/{'Derived' if modname == 'xl18b' else 'Base'}", f"{modname}.{gc.name}.__init__: Griffe {got}, CPython {exp}"))
                acc.case(cd, outcome="xl:" + ("mismatch" if probs else "ok"), nontrivial=True)
                acc.observe([p[0] for p in probs])
                if probs:
                    acc.violation(f"xl/{probs[0][0]}/{bname}{'/through-plain-subclass' if mid else ''}", probs[0][1], cd, None, size=1)


def _reduce(griffe, case, prob, key):
    """Shrink while the same key persists."""
    def still(c):
        try:
            _r, probs, _ = evaluate(griffe, c)
        except Exception:  # noqa: BLE001
            return False
        return any(_key(c, p) == key for p in probs)

    changed = True
    while changed:
        changed = False
        if case[0] == "S":
            _, deco, forms = case
            cands = [("S", deco, forms[:i] + forms[i + 1:]) for i in range(len(forms))]
        elif case[0] == "D":
            cands = []
        elif case[0] == "N":
            _, outer, deco, forms, inner_h = case
            cands = [("N", outer, deco, forms[:i] + forms[i + 1:], inner_h) for i in range(len(forms))] + ([("N", outer, deco, forms, False)] if inner_h else [])
        else:
            _, devs = case
            cands = [("H", devs[:i] + devs[i + 1:]) for i in range(len(devs))]
        for c in cands:
            if still(c):
                case = c
                changed = True
                break
    return case


def _key(case, prob):
    what, cname = prob[0], prob[1]
    if case[0] == "D":
        return f"diamond/{what}/{cname}/B:{case[1]}/C:{case[2]}/D({case[3]})" + ("/B-undecorated" if case[5] == "none" else "")
    if case[0] == "N":
        return f"nested/{case[1]}/{what}/{cname.rsplit('.', 1)[-1]}" + (f"/{case[2]}" if case[2] != "@dataclass" else "")
    blamed = prob[3] if len(prob) > 3 else None
    if case[0] == "H" and any(d[0] == "init-assigns" for d in case[1]):
        # one cause whatever else deviates: attributes assigned in a hand-written __init__ are read as fields
        return f"hier/init-assigns/{what}"
    fam = "init" if case[0] == "S" else "hier"
    if blamed:
        return f"{fam}/{what}/{signature_of(case, cname, blamed)}"
    m = model_of(case)
    decos = sorted({d["deco"] for d in m.values() if d["deco"] != "@dataclass"} | {"handwritten-init" for d in m.values() if d["init"]})
    return f"{fam}/{what}/" + ",".join(decos)


def run_shard(shard, tier):
    boot.boot()
    import griffe

    acc = Acc()
    reduced: dict = {}
    if shard == 0:
        _run_xm(griffe, acc)
        _run_xl(griffe, acc)
    for idx, case in enumerate(all_cases(tier)):
        if idx % NSHARDS != shard:
            continue
        try:
            res, problems, nontrivial = evaluate(griffe, case)
        except Exception as e:  # noqa: BLE001
            import traceback

            acc.violation(f"harness-or-raise/{type(e).__name__}", repr(e), {"case": case}, {"tb": traceback.format_exc()[-800:]})
            continue
        acc.case({"case": case}, outcome=res + (":mismatch" if problems else ""), nontrivial=nontrivial)
        acc.observe([p[0] + p[1] for p in problems])
        # problems of derived classes are usually consequences of an ancestor's: report the top-most class only
        first_cls = problems[0][1] if problems else None
        for prob in [p for p in problems if p[1] == first_cls]:
            what, cname, detail = prob[:3]
            key = _key(case, prob)
            if key not in reduced:
                reduced[key] = _reduce(griffe, case, prob, key)
            small = reduced[key]
            src, _ = source_of(small)
            acc.violation(key, detail if small == case else f"{detail} [smallest: see replay]", {"case": small, "source": src}, {"first_seen_in": case}, size=len(src))
    return acc.result()


def _detuple(x):
    return tuple(_detuple(i) for i in x) if isinstance(x, list) else x


def replay(case):
    boot.boot()
    import griffe

    c = _detuple(case["case"])
    if c and c[0] == "XL":
        acc = Acc()
        _run_xl(griffe, acc, only=(c[1], c[2]))
        return [(k, v["summary"], v["detail"]) for k, v in acc.violations.items()]
    if c and c[0] == "XM":
        acc = Acc()
        _run_xm(griffe, acc, only=tuple(c[1:]))
        return [(k, v["summary"], v["detail"]) for k, v in acc.violations.items()]
    _r, probs, _ = evaluate(griffe, c)
    return [(_key(c, p), p[2], None) for p in probs if p[1] == probs[0][1]]
