"""C17 — Static and dynamic analysis agree on the API skeleton.

Executable packages pkg/{__init__, sib, mod}.py: `mod` is every selection of <= 2 (quick) / 3 (thorough) constructs from a menu
(functions of representative signature shapes incl. async, a class with instance/static/class methods, property,
cached_property, class attributes, docstrings; nested class; __init__ with instance attributes; single / multiple
inheritance from local and imported bases; module attributes; module docstring; __all__; intra-package imports of a
class, a function, a module and a plain value).  Each package is loaded twice from the same files — statically and
with force_inspection=True — and a skeleton (member names -> kinds recursively; per function (name, kind, required) of
every parameter; base classes; docstrings of modules/classes/functions; final target of aliases) is compared after
removing exactly the differences the property lists (interpreter dunders, instance attributes assigned in __init__,
attribute docstrings, origin of imported plain values, labels, line numbers).
"""
from __future__ import annotations

import itertools
import os

from mc.core import boot, sandbox
from mc.core.driver import Acc

PROPERTY = "C17"
LEVEL = "exploration"
NSHARDS = 48
RULE = (
    "all selections of constructs up to the bound for pkg/mod.py (ordered by menu position), each loaded by both agents; non-trivial = the module defines at least one "
    "function or class; distinct by construction"
)
ASSUMPTIONS = ["values are literals (lambdas, partials and `same = orig` re-bindings are attributes statically and functions/aliases dynamically: outside the property's generator list)",
               "dataclasses and enums are C18's subject (the runtime rewrites their members)", "imports are intra-package only (external targets are not loaded, 'same final target' is undecidable there)"]
MANIFEST = {
    "category": "exploration",
    "text": "Bounded exhaustive enumeration of executable modules (<= 3 quick / <= 4 thorough constructs from a 37-entry menu) inside a three-module package under three __init__ variants (empty, re-exporting, binding its submodules as module objects), loaded by the visitor and by the inspector from the same files; skeletons compared modulo the exemptions the property lists; a nested-packages family compares every module of a package three levels deep. The menu includes definitions inside match / try / with / for / while clauses and functions under functools.wraps decorators.",
    "note": "Complete for the construct menu and selection size; the exemption list is applied exactly as written in the property.",
    "technique": "model checking by exhaustive small-scope enumeration of executable modules with differential comparison of the two analysis agents",
}

SIB = 'class SibClass:\n    """Sib class."""\n    def sm(self): ...\nclass Mixin:\n    def mix(self): ...\ndef sib_func(a, b=1):\n    """Sib func."""\nVALUE = 41\n'
MENU = [
    ("doc", '"""Module docstring of mod."""'),
    ("f-empty", "def f0(): ..."),
    ("f-all-kinds", 'def f1(a, /, b, *args, c=1, **kw):\n    """Doc f1."""'),
    ("f-posonly-default", "def f2(a=1, /): ..."),
    ("f-kwonly", "def f3(*, k): ..."),
    ("f-varargs", "def f4(*args): ..."),
    ("f-varkw", "def f5(**kw): ..."),
    ("f-async", "async def f6(x): ..."),
    ("f-annotated", "def f7(a: int, b: str = 's') -> int:\n    return 1"),
    ("class-methods", 'import functools\nclass K:\n    """Doc K."""\n    ca = 1\n    def m(self, p, q=2):\n        """Doc m."""\n    @staticmethod\n    def s(x): ...\n    @classmethod\n    def c(cls, y): ...\n'
                      '    @property\n    def prop(self):\n        """Doc prop."""\n        return 1\n    @functools.cached_property\n    def cprop(self): return 2\n'),
    ("class-nested", "class Outer:\n    class Inner:\n        iv = 1\n        def im(self): ...\n"),
    ("class-init", "class WithInit:\n    cattr = 0\n    def __init__(self, a, b=1):\n        self.inst = a\n"),
    ("class-empty", "class Empty: ..."),
    ("inherit-local", "class A0:\n    def am(self): ...\nclass B0(A0):\n    def bm(self): ...\n"),
    ("inherit-multiple", "class A1: ...\nclass M1: ...\nclass D1(A1, M1): ...\n"),
    ("inherit-imported", "from pkg.sib import SibClass as _Base\nclass FromSib(_Base):\n    extra = 1\n"),
    ("inherit-imported-multi", "from pkg.sib import SibClass, Mixin\nclass Both(SibClass, Mixin): ...\n"),
    ("inherit-dotted-3", "import pkg.sib\nclass Deep3(pkg.sib.SibClass): ...\n"),
    ("inherit-dotted-nested", "class O3:\n    class M3:\n        class I3: ...\nclass FromNested(O3.M3.I3): ...\n"),
    ("attr-plain", "X = 1"),
    ("attr-annotated", "Y: int = 2"),
    ("attr-collections", "Z = [1, 2]\nW = {'a': 1}\nT = (1, 2)"),
    ("import-class", "from pkg.sib import SibClass"),
    ("import-function", "from pkg.sib import sib_func"),
    ("import-module", "from pkg import sib"),
    ("import-module-dotted", "import pkg.sib"),
    ("import-value", "from pkg.sib import VALUE"),
    ("import-as", "from pkg.sib import sib_func as renamed"),
    ("all", "__all__ = ['AX', 'afn']\nAX = 1\ndef afn(): ...\ndef not_exported(): ..."),
    ("private", "def _private(a): ...\n_PX = 1"),
    ("method-special", "class Sp:\n    def __eq__(self, other): return True\n    def __repr__(self): return 'Sp'\n"),
    ("attr-none", "N = None\nclass HasNone:\n    cn = None\n    def hm(self, p=None): ...\n"),
    ("doc-shapes", 'def ds1():\n    """\n    Title\n        indented\n    """\ndef ds2():\n    """Title\n\n        code\n    text\n    """\nclass DS3:\n    """\n        Deep\n            deeper\n    """\n'),
    ("class-attr-annotated", "class Ann:\n    a: int = 1\n    b: str = 'x'\n"),
    # plain subclasses of a class that has a subscripted base (CPython keeps __orig_bases__ on the generic class and its subclasses INHERIT the attribute)
    # two stacked decorators (built-in then standard library, and the reverse), asynchronous static and class methods
    ("stacked-decorators", "import abc, functools\nclass St:\n    @property\n    @abc.abstractmethod\n    def ap(self): ...\n    @staticmethod\n    @functools.cache\n    def sc(x): ...\n"
                           "    @staticmethod\n    async def sa(x): ...\n    @classmethod\n    async def ca(cls, y): ...\n"),
    ("inherit-below-generic", "import typing\nTV = typing.TypeVar('TV')\nclass Box(typing.Generic[TV]):\n    def get(self): ...\nclass PlainBox(Box):\n    pass\nclass DeeperBox(PlainBox):\n    pass\n"),
    # definitions inside the clauses of compound statements (the same ones in every branch: the skeleton does not depend on which branch ran)
    ("defs-in-blocks", "import sys\nmatch sys.maxsize:\n    case 0:\n        def mfn(a, b=1): ...\n        class MCls:\n            mattr = 1\n            def mm(self, p): ...\n    case _:\n        def mfn(a, b=1): ...\n        class MCls:\n            mattr = 1\n            def mm(self, p): ...\n"
                       "try:\n    def tfn(x, /): ...\nexcept Exception:\n    pass\nelse:\n    class ECls:\n        ev = 1\nfinally:\n    def ffn(*, k=0): ...\n"
                       "import contextlib\nwith contextlib.nullcontext():\n    def wfn(q): ...\nfor _i in (1,):\n    class LCls:\n        def lm(self): ...\ndel _i\nwhile True:\n    def whfn(): ...\n    break\n"),
    # functions under decorators that return a functools.wraps wrapper (a plain one, a factory, an attribute chain): the signature CPython reports is the written one
    ("wraps-decorated", "import functools\ndef _deco(fn):\n    @functools.wraps(fn)\n    def wrapper(*args, **kwargs):\n        return fn(*args, **kwargs)\n    return wrapper\ndef _factory(times):\n    return _deco\n"
                        "import types\n_tools = types.SimpleNamespace(traced=_deco)\n"
                        "@_deco\ndef wrapped(url, /, timeout=10, *, verify=True):\n    \"\"\"Doc wrapped.\"\"\"\n@_factory(times=5)\ndef wrapped2(a, b=2): ...\n@_tools.traced\ndef wrapped3(*, only): ...\n"
                        "class WK:\n    @_deco\n    def meth(self, x, *, y=1): ...\n    @staticmethod\n    @_deco\n    def sm(p, q=0): ...\n"),
    # annotations that exist only as text: quoted names nothing defines, a name imported under TYPE_CHECKING only (evaluating them fails; the signature does not depend on them)
    ("f-unresolvable-annotations", "import typing\nif typing.TYPE_CHECKING:\n    from decimal import Decimal\ndef fq(a: 'NotDefinedAnywhere', b: 'Decimal' = 1, *, k: 'list[Nope]' = None) -> 'AlsoNot': ...\n"
                                   "class Q:\n    def qm(self, p: 'Decimal') -> 'Q': ...\n    @staticmethod\n    def qs(x: 'Nope'): ...\n"),
]
_MAX = {"quick": 3, "thorough": 4}
INIT_VARIANTS = [("empty", ""), ("reexport", "from pkg.sib import SibClass\nfrom pkg.mod import *\n"),
                 # the package binds its own submodules as module objects, under their own and under other names
                 ("module-imports", "from . import sib as s\nfrom . import mod\nimport pkg.sib as subpackage\nfrom pkg import mod as m2\nfrom .sib import sib_func as sf, VALUE\n")]


def bounds(tier):
    return {"menu": [m[0] for m in MENU], "max_constructs": _MAX[tier], "init_variants": [v[0] for v in INIT_VARIANTS]}


def all_cases(tier):
    for n in range(1, _MAX[tier] + 1):
        for combo in itertools.combinations(range(len(MENU)), n):
            if sum(MENU[i][0] == "doc" for i in combo) and combo[0] != 0:
                continue
            for iv in range(len(INIT_VARIANTS)):
                if iv >= 1 and n == _MAX[tier] and (tier == "thorough" or iv == 2):
                    continue
                yield (combo, iv)


def shards(tier):
    return list(range(NSHARDS))


DUNDER_KEEP = {"__init__", "__all__", "__eq__", "__repr__"}


def skeleton(obj, griffe, static):
    out = {}
    for name, m in obj.members.items():
        if name.startswith("__") and name.endswith("__") and name not in DUNDER_KEEP:
            continue
        if static and m.runtime is False:
            continue  # written under `if TYPE_CHECKING:`: never bound at runtime, only static analysis can know it
        if m.is_alias:
            try:
                ft = m.final_target
                if ft.is_module:
                    out[name] = ("alias", ft.path)
                elif ft.is_attribute and "property" not in ft.labels:
                    out[name] = ("value",)  # origin of imported plain values is exempt: names only
                else:
                    out[name] = ("alias", ft.path)
            except Exception as e:  # noqa: BLE001
                out[name] = ("alias-unresolved", m.target_path, type(e).__name__)
            continue
        if m.is_module:
            continue
        if m.is_function:
            # (labels are agent-specific vocabulary, except the two kinds of method CPython itself distinguishes)
            out[name] = ("function", tuple((p.name, p.kind.value, bool(p.required)) for p in m.parameters), m.docstring.value if m.docstring else None,
                         tuple(sorted(l for l in m.labels if l in ("staticmethod", "classmethod"))))
        elif m.is_class:
            bases = []
            for b in m.bases:
                try:
                    bases.append(b if isinstance(b, str) else b.canonical_path)
                except Exception:  # noqa: BLE001
                    bases.append(str(b))
            out[name] = ("class", tuple(bases), m.docstring.value if m.docstring else None, skeleton(m, griffe, static))
        elif m.is_attribute:
            if static and "instance-attribute" in m.labels and "class-attribute" not in m.labels and obj.is_class and m.value is not None and name in ("inst",):
                continue  # instance attribute assigned in __init__: only the static agent can know
            out[name] = ("value",) if "property" not in m.labels else ("property", m.docstring.value if m.docstring else None)
    return out


def diff(a, b, path=""):
    """yield (path, field, static, dynamic)"""
    for n in sorted(set(a) | set(b)):
        p = f"{path}{n}"
        if n not in a:
            yield (p, "missing-in-static", None, b[n][0])
        elif n not in b:
            yield (p, "missing-in-dynamic", a[n][0], None)
        else:
            x, y = a[n], b[n]
            if x[0] != y[0]:
                yield (p, "kind", x[0], y[0])
            elif x[0] == "function":
                if x[1] != y[1]:
                    sa, sb = dict((q[0], q) for q in x[1]), dict((q[0], q) for q in y[1])
                    if [q[0] for q in x[1]] != [q[0] for q in y[1]]:
                        yield (p, "parameter-names", [q[0] for q in x[1]], [q[0] for q in y[1]])
                    else:
                        for q in x[1]:
                            o = sb[q[0]]
                            if q[1] != o[1]:
                                yield (p, f"parameter-kind/{q[1]}", q, o)
                            elif q[2] != o[2]:
                                yield (p, f"parameter-required/{q[1]}", q, o)
                if x[2] != y[2]:
                    yield (p, "function-docstring", x[2], y[2])
                if len(x) > 3 and len(y) > 3 and x[3] != y[3]:
                    yield (p, "method-kind", x[3], y[3])
            elif x[0] == "class":
                if x[1] != y[1]:
                    yield (p, "bases", x[1], y[1])
                if x[2] != y[2]:
                    yield (p, "class-docstring", x[2], y[2])
                yield from diff(x[3], y[3], p + ".")
            elif x[0] == "alias" and x[1] != y[1]:
                yield (p, "alias-target", x[1], y[1])
            elif x[0] == "property" and x[1] != y[1]:
                yield (p, "property-docstring", x[1], y[1])


def run_case(griffe, acc, case):
    combo, iv = case
    src = "\n".join(MENU[i][1] for i in combo) + "\n"
    files = {"pkg/__init__.py": INIT_VARIANTS[iv][1], "pkg/sib.py": SIB, "pkg/mod.py": src}
    names = [MENU[i][0] for i in combo]
    cd = {"constructs": names, "init": INIT_VARIANTS[iv][0], "source": src}
    size = len(src)
    with sandbox.scratch_dir("c17") as d:
        sandbox.write_tree(d, files)
        trees = {}
        for agent in ("static", "dynamic"):
            with sandbox.interpreter_state():
                try:
                    loader = griffe.GriffeLoader(search_paths=[d], allow_inspection=(agent == "dynamic"), force_inspection=(agent == "dynamic"))
                    pkg = loader.load("pkg")
                    loader.resolve_aliases(implicit=True, external=False)
                    mod = pkg.members["mod"]
                    trees[agent] = (skeleton(mod, griffe, agent == "static"), mod.docstring.value if mod.docstring else None, skeleton(pkg, griffe, agent == "static"))
                except Exception as e:  # noqa: BLE001
                    import traceback

                    tb = traceback.extract_tb(e.__traceback__)
                    frame = next((f.name for f in reversed(tb) if "_griffe" in f.filename), tb[-1].name)
                    acc.violation(f"raise/{agent}/{type(e).__name__}@{frame}", f"{agent} load raised {e!r}", cd, None, size=size)
                    acc.case(cd, outcome=f"{agent}-raise")
                    return
    s, dy = trees["static"], trees["dynamic"]
    nontrivial = any(v[0] in ("function", "class") for v in s[0].values())
    diffs = list(diff(s[0], dy[0], "mod.")) + list(diff(s[2], dy[2], "pkg."))
    if s[1] != dy[1]:
        diffs.append(("mod", "module-docstring", s[1], dy[1]))
    acc.case({"constructs": names, "init": cd["init"]}, outcome="agree" if not diffs else "differ", nontrivial=nontrivial)
    acc.observe(sorted(str(x) for x in diffs))
    for p, field, a, b in diffs:
        # which construct does the path belong to
        owner = p.split(".")[1] if "." in p else p
        if p == "pkg.pkg" and any(MENU[i][0] == "import-module-dotted" for i in combo):
            owner = "pkg.sib"  # the name `pkg` is bound by `import pkg.sib` and re-exported by the wildcard import in __init__
        construct = next((MENU[i][0] for i in combo if f" {owner}" in MENU[i][1] or f"{owner} =" in MENU[i][1] or f"{owner}:" in MENU[i][1] or f"as {owner}" in MENU[i][1]), "init" if p.startswith("pkg.") else "?")
        if p == "pkg.pkg":
            construct = "import-module-dotted"
        init_src = INIT_VARIANTS[iv][1]
        if p.startswith("pkg.") and p.count(".") == 1 and (f"as {owner}\n" in init_src or f"as {owner}," in init_src or f"import {owner}\n" in init_src or f", {owner}\n" in init_src):
            construct = "init:" + INIT_VARIANTS[iv][0]
        leaf = p.split(".")[-1]
        acc.violation(f"skeleton/{construct}/{field}/{leaf if construct != '?' else 'unknown'}", f"{p}: {field}: static {a!r} vs dynamic {b!r}", cd, None, size=size)


# NP: nested packages. Relative imports with one, two and three dots from `__init__` modules and plain modules one, two and three packages deep; the skeleton of
# EVERY module of the package is compared between the two agents
NP_FILES = {
    "np17/__init__.py": "from .core import Root\n",
    "np17/core.py": "class Root:\n    def r(self): ...\ndef top_fn(a, b=1): ...\n",
    "np17/plugins/__init__.py": "from ..core import Root as PRoot\nfrom .base import Plugin\n",
    "np17/plugins/base.py": "from ..core import Root\nfrom .. import core as core_mod\nclass Plugin(Root):\n    def run(self, x): ...\ndef register(p): ...\n",
    "np17/plugins/builtin/__init__.py": "from ..base import Plugin, register\nfrom .. import base\nfrom ...core import top_fn\nclass Default(Plugin):\n    def run(self, x, y=0): ...\nfrom . import impl\n",
    "np17/plugins/builtin/impl.py": "from . import Default\nfrom ..base import Plugin as ImplPlugin\nfrom ...core import Root as ImplRoot\nfrom ... import core as impl_core\nclass Impl(Default):\n    pass\n",
}
NP_MODS = ["core", "plugins", "plugins.base", "plugins.builtin", "plugins.builtin.impl"]


def _run_nested(griffe, acc):
    cd = {"family": "nested-packages", "files": NP_FILES}
    with sandbox.scratch_dir("c17n") as d:
        sandbox.write_tree(d, NP_FILES)
        trees = {}
        for agent in ("static", "dynamic"):
            with sandbox.interpreter_state():
                try:
                    loader = griffe.GriffeLoader(search_paths=[d], allow_inspection=(agent == "dynamic"), force_inspection=(agent == "dynamic"))
                    pkg = loader.load("np17")
                    loader.resolve_aliases(implicit=True, external=False)
                    trees[agent] = {"": skeleton(pkg, griffe, agent == "static"), **{m: skeleton(pkg[m], griffe, agent == "static") for m in NP_MODS}}
                except Exception as e:  # noqa: BLE001
                    acc.violation(f"raise/{agent}/{type(e).__name__}/nested-packages", f"{agent} load raised {e!r}", cd, None, size=1)
                    return
    diffs = []
    for m in ["", *NP_MODS]:
        diffs += list(diff(trees["static"][m], trees["dynamic"][m], f"np17.{m}." if m else "np17."))
    acc.case(cd, outcome="nested:" + ("agree" if not diffs else "differ"), nontrivial=True)
    acc.observe(sorted(str(x) for x in diffs))
    for p, field, a, b in diffs:
        acc.violation(f"skeleton/nested-packages/{field}/{p.rsplit('.', 1)[-1]}", f"{p}: {field}: static {a!r} vs dynamic {b!r}", cd, None, size=1)


def run_shard(shard, tier):
    boot.boot()
    import griffe

    acc = Acc()
    if shard == 0:
        _run_nested(griffe, acc)
    for idx, case in enumerate(all_cases(tier)):
        if idx % NSHARDS != shard:
            continue
        try:
            run_case(griffe, acc, case)
        except Exception as e:  # noqa: BLE001
            import traceback

            acc.violation(f"harness-error/{type(e).__name__}", repr(e), {"case": [list(case[0]), case[1]]}, {"tb": traceback.format_exc()[-900:]})
    return acc.result()


def replay(case):
    boot.boot()
    import griffe

    acc = Acc()
    if case.get("family") == "nested-packages":
        _run_nested(griffe, acc)
        return [(k, v["summary"], v["detail"]) for k, v in acc.violations.items()]
    names = [m[0] for m in MENU]
    combo = tuple(names.index(n) for n in case["constructs"])
    iv = [v[0] for v in INIT_VARIANTS].index(case["init"])
    run_case(griffe, acc, (combo, iv))
    return [(k, v["summary"], v["detail"]) for k, v in acc.violations.items()]
