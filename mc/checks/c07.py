"""C07 — Method resolution order and inherited members equal CPython's.

Spaces (all enumerated completely):
  H  every hierarchy of N classes where class i has an ordered tuple of <= 3 distinct earlier classes as bases
  X  the same hierarchies (N <= 4) split over two modules in every way, bases reached through `from pkg.x import Ci as Bi`
  M  for N <= 4 (quick 3): every placement of the member names {m (attribute), s (method)} on the classes
  Y  every assignment of <= 2 ordered bases from {C0,C1,C2} (self included) to 3 classes that contains a cycle
Oracle: CPython `type(name, bases, ns)`: __mro__, TypeError for inconsistent orders, attribute lookup along the MRO.
"""
from __future__ import annotations

import itertools
import os
from pathlib import Path

from mc.core import boot, sandbox
from mc.core.driver import Acc

PROPERTY = "C07"
LEVEL = "exploration"
NSHARDS = 32
RULE = (
    "all class hierarchies up to N classes with <= 3 ordered distinct earlier bases (plus all two-module splits, all member "
    "placements of two names for small N, and all cyclic base assignments on 3 classes); a case is non-trivial when some class "
    "has >= 2 bases (so linearisation has a choice), a member is inherited, or a cycle is present; cases are distinct by construction"
)
ASSUMPTIONS = ["CPython 3.12 type() is the reference for C3 linearisation and attribute lookup", "class bodies contain only the generated members"]
MANIFEST = {
    "category": "exploration",
    "text": "(incl. family N: class paths that are textual prefixes/suffixes of each other across modules) Bounded exhaustive enumeration of class hierarchies (N<=5 quick, N<=6 thorough, <=3 ordered bases), their two-module splits through import aliases, all placements of two member names, and all cyclic base assignments on three classes; each is loaded by the real visitor/loader and compared with CPython's type().__mro__ and attribute lookup; family V addresses every attribute CPython finds by path through import aliases and inherited nested classes (depth 3). Same-name shapes include class bodies that bind the name of one of their bases; view shapes include overrides seen through import aliases. Same-name shapes include a base name bound by an explicit import and by a wildcard import (both orders).",
    "note": "CPython is the oracle; complete inside the bound on N and base count, silent beyond it.",
    "technique": "model checking by exhaustive small-scope enumeration of hierarchies on the real code, CPython type() as oracle",
}

_N = {"quick": 5, "thorough": 6}
_NM = {"quick": 4, "thorough": 4}  # (4: the smallest diamond with members placed on every class)
_NX = {"quick": 3, "thorough": 4}


def bounds(tier):
    return {"max_classes": _N[tier], "max_bases": 3, "member_placement_classes": _NM[tier], "two_module_classes": _NX[tier], "cycle_classes": 3}


def hierarchies(n):
    """All hierarchies with exactly n classes."""
    per_class = []
    for i in range(n):
        opts = [()]
        for k in range(1, min(3, i) + 1):
            opts.extend(itertools.permutations(range(i), k))
        per_class.append(opts)
    return itertools.product(*per_class)


def all_cases(tier):
    for n in range(1, _N[tier] + 1):
        for h in hierarchies(n):
            yield ("H", h)
    for n in range(2, _NX[tier] + 1):
        for h in hierarchies(n):
            for mask in range(1, 2 ** n - 1):
                yield ("X", h, mask)
    for n in range(2, _NM[tier] + 1):
        for h in hierarchies(n):
            if not any(h):
                continue
            for placement in itertools.product(range(4), repeat=n):
                if any(placement):
                    yield ("M", h, placement)
    opts = [()] + [(i,) for i in range(3)] + list(itertools.permutations(range(3), 2))
    for h in itertools.product(opts, repeat=3):
        if _has_cycle(h):
            yield ("Y", h)
    # L: load histories. The classes live in two TOP-LEVEL modules loaded one after the other into one collection, in both
    # orders, with the MRO queried after every step (answers given early must not be remembered once more is known)
    for n in range(2, _NX[tier] + 1):
        for h in hierarchies(n):
            if not any(h):
                continue
            for mask in range(1, 2 ** n - 1):
                for order in (("app7", "lib7"), ("lib7", "app7")):
                    for early in (False, True):
                        yield ("L", h, mask, order, early)
    yield from _cases_N(tier)
    for shape in SN_SHAPES:
        yield ("SN", shape)
    for shape in V_SHAPES:
        yield ("V", shape)


# N: the same hierarchies with class paths that are textual prefixes / suffixes of each other (same class name in m7, pk7.m7, pk7.pk7.m7;
# names C, CC, CCC in one module): cycle detection and base lookup must compare whole paths, not pieces of text
NAMINGS = {
    "suffix": [("m7", "C"), ("pk7.m7", "C"), ("pk7.pk7.m7", "C"), ("qq7.pk7.m7", "C")],
    "prefix": [("m7", "C"), ("m7", "CC"), ("m7", "CCC"), ("m7", "C_")],
    "mixed": [("pk7.m7", "CC"), ("m7", "C"), ("pk7.m7", "C"), ("m7", "CC")],
    "reversed": [("pk7.pk7.m7", "C"), ("pk7.m7", "C"), ("m7", "C"), ("m7", "m7")],
}


def _cases_N(tier):
    for n in range(2, _NX[tier] + 1):
        for h in hierarchies(n):
            if any(h):
                for naming in NAMINGS:
                    yield ("N", h, naming)


# SN: a class that takes over the NAME of its own base (`from m import C` then `class C(C)`, a nested class named like an outer one):
# CPython evaluates the base before the name is re-bound; it is never a cycle.  CPython itself (a real import) is the oracle.
SN_SHAPES = {
    "import-same-name": {"sn7a.py": "class C:\n    def m(self): ...\n", "sn7b.py": "from sn7a import C\nclass C(C):\n    def n(self): ...\n"},
    "import-same-name-chain3": {"sn7a.py": "class C:\n    def m(self): ...\n", "sn7b.py": "from sn7a import C\nclass C(C):\n    pass\n", "sn7c.py": "from sn7b import C\nclass C(C):\n    pass\nclass D(C):\n    pass\n"},
    "import-as-same-name": {"sn7a.py": "class Base:\n    def m(self): ...\n", "sn7b.py": "from sn7a import Base as C\nclass C(C):\n    pass\n"},
    "package-same-name": {"sp7/__init__.py": "", "sp7/base.py": "class Handler:\n    def h(self): ...\n", "sp7/sub.py": "from sp7.base import Handler\nclass Handler(Handler):\n    pass\nclass Leaf(Handler):\n    pass\n"},
    "nested-same-name": {"sn7a.py": "class A:\n    def m(self): ...\nclass Outer:\n    class A(A):\n        pass\n    class B(A):\n        pass\n"},
    "nested-same-name-import": {"sn7a.py": "class A:\n    def m(self): ...\n", "sn7b.py": "from sn7a import A\nclass Outer:\n    class A(A):\n        pass\n"},
    # a base reached THROUGH an inherited member: Inner is declared by A, named as B.Inner
    "base-through-inherited-member": {"sn7a.py": "class A:\n    class Inner:\n        x = 1\nclass B(A):\n    pass\nclass C(B.Inner):\n    pass\nclass D(C, A.Inner):\n    pass\n"},
    # a class whose BODY binds the name of one of its bases (an attribute, a nested class): the bases were evaluated before the body existed
    "member-named-like-base": {"sn7a.py": "class Base:\n    def b(self): ...\nclass Options:\n    def o(self): ...\nclass Command(Base, Options):\n    Options = None\nclass Sub(Command):\n    pass\n"},
    "nested-class-named-like-base": {"sn7a.py": "class Meta:\n    abstract = True\n    def m(self): ...\nclass Model(Meta):\n    class Meta:\n        x = 1\nclass Leaf(Model, Meta):\n    pass\n"},
    "member-named-like-imported-base": {"sn7a.py": "class Options:\n    def o(self): ...\n", "sn7b.py": "from sn7a import Options\nclass Command(Options):\n    def Options(self): ...\n"},
    # the base's NAME is bound twice in the module: an explicit import, then (lower) a wildcard import that brings another class of that name -- and the reverse order
    "import-then-wildcard": {"sn7a.py": "class Root:\n    def r(self): ...\nclass Base(Root):\n    def old(self): ...\n", "sn7b.py": "class Mixin:\n    def shared(self): ...\nclass Base(Mixin):\n    def new(self): ...\n",
                             "sn7c.py": "from sn7a import Base\nfrom sn7b import *\nclass Extra(Base):\n    pass\nclass Two(Base, Mixin):\n    pass\n"},
    "wildcard-then-import": {"sn7a.py": "class Root:\n    def r(self): ...\nclass Base(Root):\n    def old(self): ...\n", "sn7b.py": "class Mixin:\n    def shared(self): ...\nclass Base(Mixin):\n    def new(self): ...\n",
                             "sn7c.py": "from sn7b import *\nfrom sn7a import Base\nclass Extra(Base):\n    pass\n"},
    "with-mixin": {"sn7a.py": "class C:\n    pass\nclass Mixin:\n    pass\n", "sn7b.py": "from sn7a import C, Mixin\nclass C(Mixin, C):\n    pass\n"},
}


# V: views. Every attribute CPython finds on a class, addressed by PATH through whatever leads to the class (the class itself, an import alias of it, a
# nested class inherited from a base, a subclass of an imported class): the collection returns a member for `<path of the view>.<name>`, its path is that
# very path ("under the subclass's own path"), and it ends at the object CPython finds.  Views are followed to depth 3.
V_SHAPES = {
    "nested-inherited": {"v7a.py": "class A:\n    class Inner:\n        def x(self): ...\n    def a(self): ...\nclass B(A):\n    class Inner(A.Inner):\n        def y(self): ...\nclass C(B):\n    pass\n"},
    "through-import-alias": {"v7a.py": "class Base:\n    def greet(self): ...\n    class N:\n        def n(self): ...\nclass Child(Base):\n    def own(self): ...\n",
                             "v7b.py": "from v7a import Child\nfrom v7a import Child as Kid\nclass Local(Child):\n    def loc(self): ...\n"},
    "alias-of-alias": {"v7a.py": "class Base:\n    def greet(self): ...\nclass Child(Base):\n    pass\n", "v7b.py": "from v7a import Child\n", "v7c.py": "from v7b import Child as K\nclass L(K):\n    pass\n"},
    # a base written with three dotted parts (module of a package imported as `import pkg.mod`)
    "dotted-base": {"v7p/__init__.py": "", "v7p/core.py": "class Root:\n    def r(self): ...\nclass Base(Root):\n    def b(self): ...\n",
                    "v7q.py": "import v7p.core\nclass C(v7p.core.Base):\n    def c(self): ...\nclass D(C):\n    pass\n"},
    # a subclass that OVERRIDES what it inherits, seen through import aliases: the override is what every view presents
    "override-through-alias": {"v7a.py": "class Root:\n    def run(self): ...\n    def keep(self): ...\nclass Base(Root):\n    def run(self): ...\n    class N:\n        def n(self): ...\nclass Child(Base):\n    def run(self): ...\n    class N(Base.N):\n        def n(self): ...\n",
                               "v7b.py": "from v7a import Child\nfrom v7a import Child as Kid\nfrom v7a import Base as B\nclass Local(Kid):\n    def keep(self): ...\n", "v7c.py": "from v7b import Kid as K2\nfrom v7b import Local\n"},
    "nested-two-levels": {"v7a.py": "class A:\n    class I:\n        class J:\n            def deep(self): ...\nclass B(A):\n    pass\nclass C(B):\n    class I(B.I):\n        pass\n"},
}


def _has_cycle(h):
    n = len(h)
    color = [0] * n

    def dfs(u):
        color[u] = 1
        for v in h[u]:
            if color[v] == 1 or (color[v] == 0 and dfs(v)):
                return True
        color[u] = 2
        return False

    return any(color[i] == 0 and dfs(i) for i in range(n))


def _reaches_cycle(h):
    """Set of classes from which a cycle is reachable."""
    n = len(h)
    on_cycle = set()
    for s in range(n):
        # s is on a cycle if s reachable from one of its bases
        stack, seen = list(h[s]), set()
        while stack:
            u = stack.pop()
            if u == s:
                on_cycle.add(s)
                break
            if u not in seen:
                seen.add(u)
                stack.extend(h[u])
    out = set()
    for s in range(n):
        stack, seen = [s], set()
        while stack:
            u = stack.pop()
            if u in on_cycle:
                out.add(s)
                break
            if u not in seen:
                seen.add(u)
                stack.extend(h[u])
    return out


def shards(tier):
    return list(range(NSHARDS))


def _body(place):
    lines = []
    if place & 1:
        lines.append("    m = 1")
    if place & 2:
        lines.append("    def s(self): ...")
    return "\n".join(lines) if lines else "    pass"


def _source(h, placement=None, names=None):
    out = []
    for i, bases in enumerate(h):
        b = "(" + ", ".join((names or {}).get(j, f"C{j}") for j in bases) + ")" if bases else ""
        out.append(f"class C{i}{b}:\n{_body(placement[i] if placement else 0)}")
    return "\n".join(out) + "\n"


def _cpython(h, placement=None):
    """Returns per class: ('mro', [names]) | ('reject',) | ('unknown',) and per class attribute origin map."""
    classes = {}
    res = []
    for i, bases in enumerate(h):
        if any(j not in classes for j in bases):
            res.append(("unknown",))
            continue
        ns = {}
        if placement:
            if placement[i] & 1:
                ns["m"] = 1
            if placement[i] & 2:
                ns["s"] = lambda self: None
        try:
            k = type(f"C{i}", tuple(classes[j] for j in bases), ns)
        except TypeError:
            res.append(("reject",))
            continue
        classes[i] = k
        res.append(("mro", [c.__name__ for c in k.__mro__[1:-1]]))
    return res, classes


def _load_single(griffe, src):
    coll = griffe.ModulesCollection()
    mod = griffe.visit("m", filepath=Path("m.py"), code=src, modules_collection=coll)
    coll.set_member("m", mod)
    return mod


def _judge_mro(acc, case, cls, expect, label):
    """cls: griffe Class; expect: CPython verdict."""
    try:
        with sandbox.time_limit(10):
            got = ("mro", [c.name for c in cls.mro()])
    except ValueError:
        got = ("reject",)
    except sandbox.CaseTimeout:
        got = ("hang",)
    except RecursionError:
        got = ("RecursionError",)
    except Exception as e:  # noqa: BLE001
        got = ("raise", type(e).__name__)
    if got[0] in ("hang", "RecursionError", "raise"):
        acc.violation(f"mro/{got[0]}{'-' + got[1] if len(got) > 1 else ''}/{label}", f"mro() of {cls.name}: {got}", case, {"got": got, "expected": expect})
        return got
    if expect[0] == "unknown":
        return got
    if expect[0] == "reject" and got[0] != "reject":
        acc.violation(f"mro/accepts-inconsistent/{label}", f"CPython rejects {cls.name} (inconsistent MRO) but Griffe returns {got[1]}", case, {"got": got})
    elif expect[0] == "mro" and got[0] == "reject":
        acc.violation(f"mro/rejects-consistent/{label}", f"CPython accepts {cls.name} with MRO {expect[1]} but Griffe raises ValueError", case, {"expected": expect})
    elif expect[0] == "mro" and got[1] != expect[1]:
        acc.violation(f"mro/order/{label}", f"{cls.name}: Griffe MRO {got[1]} != CPython {expect[1]}", case, {"got": got, "expected": expect})
    return got


def _run_case(griffe, acc, case):
    kind = case[0]
    h = case[1]
    if kind == "H":
        mod = _load_single(griffe, _source(h))
        exp, _ = _cpython(h)
        outs = []
        for i in range(len(h)):
            got = _judge_mro(acc, case, mod.members[f"C{i}"], exp[i], "single")
            outs.append(got[0] + ":" + exp[i][0])
        acc.case(case, outcome=",".join(sorted(set(outs))), nontrivial=any(len(b) >= 2 for b in h))
        acc.observe(outs)
    elif kind == "X":
        mask = case[2]
        n = len(h)
        where = {i: ("a" if mask >> i & 1 else "b") for i in range(n)}
        files = {"pkg/__init__.py": ""}
        for modname in "ab":
            mine = [i for i in range(n) if where[i] == modname]
            names = {}
            imports = []
            for i in mine:
                for j in h[i]:
                    if where[j] != modname and j not in names:
                        names[j] = f"B{j}"
                        imports.append(f"from pkg.{where[j]} import C{j} as B{j}")
            sub = {i: h[i] for i in mine}
            src = "\n".join(imports) + "\n"
            for i in mine:
                b = "(" + ", ".join(names.get(j, f"C{j}") for j in h[i]) + ")" if h[i] else ""
                src += f"class C{i}{b}:\n    pass\n"
            files[f"pkg/{modname}.py"] = src
        with sandbox.scratch_dir("c07") as d:
            sandbox.write_tree(d, files)
            loader = griffe.GriffeLoader(search_paths=[d])
            pkg = loader.load("pkg")
            loader.resolve_aliases()
            exp, _ = _cpython(h)
            outs = []
            for i in range(n):
                got = _judge_mro(acc, case, pkg[where[i]].members[f"C{i}"], exp[i], "two-modules")
                outs.append(got[0] + ":" + exp[i][0])
        acc.case(case, outcome="x:" + ",".join(sorted(set(outs))), nontrivial=True)
        acc.observe(outs)
    elif kind == "M":
        placement = case[2]
        mod = _load_single(griffe, _source(h, placement))
        exp, classes = _cpython(h, placement)
        any_inh = False
        for i in range(len(h)):
            cls = mod.members[f"C{i}"]
            if exp[i][0] != "mro":
                continue
            k = classes[i]
            own = {n for n in ("m", "s") if n in vars(k)}
            visible = {n for n in ("m", "s") if hasattr(k, n)}
            exp_inh = {}
            for n in visible - own:
                definer = next(c for c in k.__mro__ if n in vars(c))
                exp_inh[n] = f"m.{definer.__name__}.{n}"
            try:
                inh = cls.inherited_members
                got_inh = {n: a.final_target.path for n, a in inh.items()}
                flags = {n: (a.inherited, a.path) for n, a in inh.items()}
            except Exception as e:  # noqa: BLE001
                acc.violation(f"inherit/raise/{type(e).__name__}", f"inherited_members of C{i} raised {e!r}", case)
                continue
            any_inh = any_inh or bool(exp_inh)
            if got_inh != exp_inh:
                what = "missing" if set(exp_inh) - set(got_inh) else "extra" if set(got_inh) - set(exp_inh) else "origin"
                acc.violation(f"inherit/{what}", f"C{i}: inherited {got_inh} but CPython finds {exp_inh}", case, {"got": got_inh, "expected": exp_inh})
            for n, (flag, path) in flags.items():
                if not flag or path != f"m.C{i}.{n}":
                    acc.violation("inherit/alias-shape", f"C{i}.{n}: inherited={flag} path={path}", case)
            for n in own:
                a = cls[n]
                b = cls.all_members[n]
                if a is not cls.members[n] or b is not cls.members[n] or getattr(a, "inherited", False):
                    acc.violation("inherit/shadows-own", f"C{i}[{n!r}] does not return the class's own member", case)
            for n in exp_inh:
                try:
                    a = cls[n]
                    if not a.is_alias or a.final_target.path != exp_inh[n]:
                        acc.violation("inherit/getitem", f"C{i}[{n!r}] -> {a.path} / {a.final_target.path}, expected alias to {exp_inh[n]}", case)
                except Exception as e:  # noqa: BLE001
                    acc.violation(f"inherit/getitem-raise/{type(e).__name__}", f"C{i}[{n!r}] raised {e!r}", case)
        acc.case(case, outcome="members:" + ("inherits" if any_inh else "none"), nontrivial=any_inh)
    elif kind == "L":
        mask, order, early = case[2], case[3], case[4]
        n = len(h)
        where = {i: ("lib7" if mask >> i & 1 else "app7") for i in range(n)}
        files = {}
        for modname in ("app7", "lib7"):
            mine = [i for i in range(n) if where[i] == modname]
            names, imports = {}, []
            for i in mine:
                for j in h[i]:
                    if where[j] != modname and j not in names:
                        names[j] = f"B{j}"
                        imports.append(f"from {where[j]} import C{j} as B{j}")
            src = "\n".join(imports) + "\n"
            for i in mine:
                b = "(" + ", ".join(names.get(j, f"C{j}") for j in h[i]) + ")" if h[i] else ""
                src += f"class C{i}{b}:\n    pass\n"
            files[f"{modname}.py"] = src
        with sandbox.scratch_dir("c07l") as d:
            sandbox.write_tree(d, files)
            loader = griffe.GriffeLoader(search_paths=[d])
            for step, modname in enumerate(order):
                loader.load(modname)
                if early:
                    for m in loader.modules_collection.members.values():
                        for c in m.members.values():
                            if not c.is_alias and c.is_class:
                                try:
                                    c.mro()
                                    c.inherited_members  # noqa: B018
                                except Exception:  # noqa: BLE001
                                    pass
            loader.resolve_aliases(implicit=True)
            exp, _ = _cpython(h)
            outs = []
            for i in range(n):
                got = _judge_mro(acc, case, loader.modules_collection[where[i]].members[f"C{i}"], exp[i], "load-history/" + ("queried-early" if early else "queried-at-end") + "/" + ("derived-first" if order[0] == "app7" else "base-first"))
                outs.append(got[0] + ":" + exp[i][0])
        acc.case(case, outcome="hist:" + ",".join(sorted(set(outs))), nontrivial=True)
        acc.observe(outs)
    elif kind == "N":
        naming = NAMINGS[case[2]]
        n = len(h)
        files, srcs = {}, {}
        for i in range(n):
            modpath, name = naming[i]
            parts = modpath.split(".")
            for k in range(1, len(parts)):
                files.setdefault("/".join(parts[:k]) + "/__init__.py", "")
            imports, bases = [], []
            for j in h[i]:
                if naming[j][0] == modpath:
                    bases.append(naming[j][1])
                else:
                    imports.append(f"import {naming[j][0]} as M{j}")
                    bases.append(f"M{j}.{naming[j][1]}")
            b = "(" + ", ".join(bases) + ")" if bases else ""
            srcs[modpath] = srcs.get(modpath, "") + "".join(x + "\n" for x in imports) + f"class {name}{b}:\n    pass\n"
        for modpath, src in srcs.items():
            files[modpath.replace(".", "/") + ".py"] = src
        with sandbox.scratch_dir("c07n") as d:
            sandbox.write_tree(d, files)
            loader = griffe.GriffeLoader(search_paths=[d])
            for top in sorted({m.split(".")[0] for m in srcs}):
                loader.load(top)
            loader.resolve_aliases(implicit=True)
            exp, _ = _cpython(h)
            outs = []
            for i in range(n):
                cls = loader.modules_collection[naming[i][0]].members[naming[i][1]]
                try:
                    with sandbox.time_limit(10):
                        got = ("mro", [c.path for c in cls.mro()])
                except ValueError:
                    got = ("reject",)
                except Exception as e:  # noqa: BLE001
                    got = ("raise", type(e).__name__)
                want = exp[i] if exp[i][0] != "mro" else ("mro", [".".join(naming[int(x[1:])]) for x in exp[i][1]])
                outs.append(got[0] + ":" + want[0])
                if want[0] == "unknown":
                    continue
                if got != want:
                    what = "raise-" + got[1] if got[0] == "raise" else "rejects-consistent" if got[0] == "reject" else "accepts-inconsistent" if want[0] == "reject" else "order"
                    acc.violation(f"mro/{what}/related-paths/{case[2]}", f"{cls.path}: Griffe {got}, CPython {want}", case, {"files": files})
        acc.case(case, outcome="names:" + ",".join(sorted(set(outs))), nontrivial=True)
        acc.observe(outs)
    elif kind == "SN":
        import importlib
        import sys

        files = SN_SHAPES[case[1]]
        tops = sorted({f.split("/")[0].removesuffix(".py") for f in files})
        modnames = sorted(f.removesuffix(".py").removesuffix("/__init__").replace("/", ".") for f in files)
        with sandbox.scratch_dir("c07s") as d, sandbox.interpreter_state():
            sandbox.write_tree(d, files)
            sys.path.insert(0, d)
            importlib.invalidate_caches()
            expect = {}
            for mn in modnames:
                pm = importlib.import_module(mn)

                def walk(ns, prefix):
                    for k, v in vars(ns).items():
                        if isinstance(v, type) and v.__module__ == mn and v.__qualname__ == (prefix + k).split(".", mn.count(".") + 1)[-1]:
                            expect[f"{mn}.{v.__qualname__}"] = [f"{c.__module__}.{c.__qualname__}" for c in v.__mro__[1:-1]]
                            walk(v, prefix + k + ".")

                walk(pm, mn + ".")
            for k in [k for k in sys.modules if k.split(".")[0] in tops]:
                del sys.modules[k]
            loader = griffe.GriffeLoader(search_paths=[d])
            for top in tops:
                loader.load(top)
            loader.resolve_aliases(implicit=True)
            outs = []
            for path, want in sorted(expect.items()):
                cls = loader.modules_collection[path]
                try:
                    with sandbox.time_limit(10):
                        got = [c.path for c in cls.mro()]
                except ValueError as e:
                    got = "ValueError: " + str(e)[:80]
                except Exception as e:  # noqa: BLE001
                    got = "raise " + type(e).__name__
                outs.append(got == want)
                if got != want:
                    what = "false-cycle" if isinstance(got, str) and "cycle" in got else "raise" if isinstance(got, str) else "order"
                    acc.violation(f"mro/{what}/same-name-as-base/{case[1]}", f"{path}: Griffe {got}, CPython {want}", case, {"files": files})
        acc.case(case, outcome="same-name:" + ("ok" if all(outs) else "differs"), nontrivial=True)
        acc.observe(outs)
    elif kind == "V":
        import importlib
        import sys
        import types

        files = V_SHAPES[case[1]]
        modnames = sorted(f.removesuffix(".py").removesuffix("/__init__").replace("/", ".") for f in files)
        with sandbox.scratch_dir("c07v") as d, sandbox.interpreter_state():
            sandbox.write_tree(d, files)
            sys.path.insert(0, d)
            importlib.invalidate_caches()
            expect = {}  # view path -> path of the object CPython finds there

            def origin(v):
                return f"{v.__module__}.{v.__qualname__}"

            def walk(cls, path, depth):
                for n in dir(cls):
                    if n.startswith("__"):
                        continue
                    v = getattr(cls, n)
                    if isinstance(v, (types.FunctionType, type)):
                        expect[f"{path}.{n}"] = origin(v)
                        if isinstance(v, type) and depth < 3:
                            walk(v, f"{path}.{n}", depth + 1)

            for mn in modnames:
                pm = importlib.import_module(mn)
                for k, v in vars(pm).items():
                    if isinstance(v, type) and not k.startswith("__"):
                        expect[f"{mn}.{k}"] = origin(v)
                        walk(v, f"{mn}.{k}", 1)
            for k in [k for k in sys.modules if k in modnames]:
                del sys.modules[k]
            loader = griffe.GriffeLoader(search_paths=[d], allow_inspection=False)
            for mn in sorted({m.split(".")[0] for m in modnames}):
                loader.load(mn)
            loader.resolve_aliases(implicit=True)
            outs = []
            for path, want in sorted(expect.items()):
                depth = path.count(".")
                try:
                    with sandbox.time_limit(10):
                        m = loader.modules_collection[path]
                        got_path = m.path
                        got_target = m.final_target.path if m.is_alias else m.path
                except Exception as e:  # noqa: BLE001
                    acc.violation(f"views/lookup-{type(e).__name__}/{case[1]}", f"collection[{path!r}] raised {e!r}; CPython finds {want}", case, {"files": files}, size=depth)
                    outs.append("raise")
                    continue
                ok = got_path == path and got_target == want
                outs.append(ok)
                if got_path != path:
                    acc.violation(f"views/path/{case[1]}", f"collection[{path!r}] is presented under the path {got_path!r}", case, {"files": files}, size=depth)
                if got_target != want:
                    acc.violation(f"views/target/{case[1]}", f"collection[{path!r}] ends at {got_target}, CPython finds {want}", case, {"files": files}, size=depth)
        acc.case(case, outcome="views:" + ("ok" if all(o is True for o in outs) else "differs"), nontrivial=True)
        acc.observe(outs)
    elif kind == "Y":
        mod = _load_single(griffe, _source(h))
        bad = _reaches_cycle(h)
        outs = []
        for i in range(3):
            cls = mod.members[f"C{i}"]
            try:
                with sandbox.time_limit(10):
                    try:
                        cls.mro()
                        r = "returns"
                    except ValueError:
                        r = "ValueError"
                    inh = cls.inherited_members
                    allm = cls.all_members
            except sandbox.CaseTimeout:
                acc.violation("mro/cycle/hang", f"C{i} in cyclic hierarchy: no answer within 10 s", case)
                continue
            except RecursionError:
                acc.violation("mro/cycle/RecursionError", f"C{i} in cyclic hierarchy: RecursionError", case)
                continue
            except Exception as e:  # noqa: BLE001
                acc.violation(f"mro/cycle/raise-{type(e).__name__}", f"C{i} in cyclic hierarchy: {e!r}", case)
                continue
            outs.append(r)
            if i in bad:
                if r != "ValueError":
                    acc.violation("mro/cycle/not-reported", f"C{i} reaches an inheritance cycle but mro() returned", case)
                if inh != {} or dict(allm) != dict(cls.members):
                    acc.violation("mro/cycle/inherited-not-empty", f"C{i} reaches a cycle: inherited_members={list(inh)}", case)
            elif r != "returns":
                acc.violation("mro/cycle/rejects-acyclic", f"C{i} does not reach the cycle but mro() raised", case)
        acc.case(case, outcome="cycle:" + ",".join(outs), nontrivial=True)
        acc.observe(outs)


def run_shard(shard, tier):
    boot.boot()
    import griffe

    acc = Acc()
    for idx, case in enumerate(all_cases(tier)):
        if idx % NSHARDS != shard:
            continue
        _run_case(griffe, acc, case)
    return acc.result()


def replay(case):
    boot.boot()
    import griffe

    acc = Acc()
    case = tuple(tuple(tuple(b) if isinstance(b, list) else b for b in x) if isinstance(x, list) else x for x in case)
    _run_case(griffe, acc, case)
    return [(k, v["summary"], v["detail"]) for k, v in acc.violations.items()]
