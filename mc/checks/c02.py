"""C02 — Function signatures equal CPython's view of the same definition.

P  parameter lists: every (n_posonly, n_pos_or_kw, *args?, n_kwonly, **kw?) with each count <= 2 (quick) / 3 (thorough),
   every legal number of trailing positional defaults (so defaults straddle the `/` boundary), every subset of keyword-only
   defaults; x 7 contexts; x annotation pattern / default expression / return annotation (quick: <= 1 deviation from the
   plain variant, thorough: full product).  Oracle: exec the same source, inspect.signature; expressions compared as ASTs
   against an independent ast.parse of the source.
L  the same lists as lambdas stored as an attribute value and as a parameter default (names, kinds, has-default).
O  overloads: every sequence of length <= 4 over {overload of f, implementation of f, unrelated def g, overload of g}
   x 4 decorator spellings x {module, class}.
R  properties: every sequence of length <= 4 over {getter, setter, deleter, plain def} that CPython accepts; oracle is the
   property object CPython ends up with (fget/fset/fdel and which def they are).
"""
from __future__ import annotations

import ast
import inspect
import itertools
from pathlib import Path

from mc.core import boot
from mc.core.driver import Acc

PROPERTY = "C02"
LEVEL = "exploration"
NSHARDS = 48
RULE = (
    "every legal parameter list up to the count bound x contexts x annotation/default/return variants, plus all overload and "
    "property definition sequences up to length 4; non-trivial = the list has >= 2 parameters or a default, or the sequence has >= 2 "
    "definitions of one name; distinct by construction"
)
ASSUMPTIONS = ["CPython 3.12 inspect.signature / ast.parse are the reference", "variadic parameters: Griffe's documented pseudo-defaults '()' / '{}' are compared by name and kind only"]
MANIFEST = {
    "category": "exploration",
    "text": "Bounded exhaustive enumeration of parameter lists (each kind count <= 2 quick / <= 3 thorough, every default placement) in 7 definition contexts and as lambdas, of overload sequences and of property getter/setter/deleter sequences (length <= 4); every generated source is visited by the real visitor and compared with inspect.signature / the property object of the executed source; stored lambdas must also render back to the lambda that was written; family DI puts the same question to the runtime inspector for defaults whose repr is not a literal. Two contexts put the definition in a module with postponed evaluation of annotations (string literals in annotations are values there). Annotations, returns and defaults include three operands of one operator and lambdas whose own parameters default to empty displays; the quick tier also has every parameter list with three parameters of a kind (module and method context).",
    "note": "CPython is the oracle; identifiers and literal values are fixed representatives.",
    "technique": "model checking by exhaustive small-scope enumeration of definitions on the real visitor, CPython inspect as oracle",
}

KIND = {"po": "positional-only", "pk": "positional or keyword", "va": "variadic positional", "ko": "keyword-only", "vk": "variadic keyword"}
INSPECT_KIND = {
    inspect.Parameter.POSITIONAL_ONLY: "po", inspect.Parameter.POSITIONAL_OR_KEYWORD: "pk", inspect.Parameter.VAR_POSITIONAL: "va",
    inspect.Parameter.KEYWORD_ONLY: "ko", inspect.Parameter.VAR_KEYWORD: "vk",
}
CONTEXTS = ["module", "async", "method", "staticmethod", "classmethod", "nested", "inner-function-of-init",
            # the module postpones the evaluation of annotations: a string literal inside an annotation is a value, not a forward reference (CPython reports "'T'")
            "future", "future-method"]
ANN = ["none", "all", "alternating", "string", "literal", "chain3"]  # literal: Literal["r", "w"] and a nested one: the strings are values, not forward references
DEFAULTS = ["0", "None", "x", "(1, 2)", "lambda q=1, /, *r: q", '"utf-8"', '"int"', 'lambda m="r", *, e="a-b": m',
            # a lambda whose own parameters default to EMPTY displays (falsy values are defaults all the same); three operands of one operator
            "lambda item, seen=[], memo={}, t=(), s='': item", "'usr' + '/' + 'lib'", "1 - 2 - 3"]  # (string defaults are values, never annotations)
RETURNS = [None, "int", '"R"', "list[int]", 'Literal["ok", "ko"]', "bytes | str | None"]
_MAXC = {"quick": 2, "thorough": 3}


def bounds(tier):
    return {"max_count_per_kind": _MAXC[tier], "contexts": CONTEXTS, "annotation_patterns": ANN, "default_exprs": DEFAULTS, "returns": RETURNS,
            "variants": "<=1 deviation from (none, 0, absent)" if tier == "quick" else "full product", "sequence_length": 4}


def param_lists(maxc):
    for n_po, n_pk, va, n_ko, vk in itertools.product(range(maxc + 1), range(maxc + 1), (0, 1), range(maxc + 1), (0, 1)):
        for n_def in range(n_po + n_pk + 1):
            for ko_mask in range(2 ** n_ko):
                yield (n_po, n_pk, va, n_ko, vk, n_def, ko_mask)


def build_params(shape, ann="none", default="0", first=None):
    """-> list of (name, kind, annotation text|None, default text|None)"""
    n_po, n_pk, va, n_ko, vk, n_def, ko_mask = shape
    out = []
    pos = [("abc"[i], "po") for i in range(n_po)] + [("def"[i], "pk") for i in range(n_pk)]
    for i, (n, k) in enumerate(pos):
        out.append([n, k, None, default if i >= len(pos) - n_def else None])
    if va:
        out.append(["args", "va", None, None])
    for i in range(n_ko):
        out.append(["ghi"[i], "ko", None, default if ko_mask >> i & 1 else None])
    if vk:
        out.append(["kw", "vk", None, None])
    if first:
        # self / cls goes first, with the kind of whatever comes first among positionals
        kind = "po" if n_po else "pk"
        out.insert(0, [first, kind, None, None])
    for i, p in enumerate(out):
        if p[0] in ("self", "cls"):
            continue
        if ann == "all" or (ann == "alternating" and i % 2 == 0):
            p[2] = "int"
        elif ann == "string":
            p[2] = '"T"'
        elif ann == "chain3":
            # three operands of one operator, three names in a dotted chain: the order of the operands / names is part of the expression
            p[2] = "int | str | None" if i % 2 == 0 else "typing.Optional[T | R | int | None]"
        elif ann == "literal":
            p[2] = 'Literal["r", "w"]' if i % 2 == 0 else 'dict[str, typing.Literal["on", "off"]]'
    return out


def render(params):
    parts = []
    kinds = [p[1] for p in params]
    n_po = kinds.count("po")
    star = "va" in kinds
    for i, (name, kind, ann, default) in enumerate(params):
        if kind == "ko" and not star:
            parts.append("*")
            star = True
        t = {"va": "*", "vk": "**"}.get(kind, "") + name
        if ann:
            t += ": " + ann
        if default is not None:
            t += (" = " if ann else "=") + default
        parts.append(t)
        if kind == "po" and i == n_po - 1:
            parts.append("/")
    return ", ".join(parts)


def make_source(shape, ctx, ann, default, ret):
    first = {"method": "self", "classmethod": "cls", "nested": "self", "future-method": "self"}.get(ctx)
    params = build_params(shape, ann, default, first)
    sig = render(params)
    r = f" -> {ret}" if ret else ""
    head = "import typing\nfrom typing import Literal\nx = 1\nclass T: ...\nclass R: ...\n"
    if ctx == "module":
        src = head + f"def f({sig}){r}:\n    pass\n"
        path = ("f",)
    elif ctx == "future":
        src = "from __future__ import annotations\n" + head + f"def f({sig}){r}:\n    pass\n"
        path = ("f",)
    elif ctx == "future-method":
        src = '"""Doc."""\nfrom __future__ import annotations\n' + head + f"class C:\n    def f({sig}){r}:\n        pass\n"
        path = ("C", "f")
    elif ctx == "async":
        src = head + f"async def f({sig}){r}:\n    pass\n"
        path = ("f",)
    elif ctx == "method":
        src = head + f"class C:\n    def f({sig}){r}:\n        pass\n"
        path = ("C", "f")
    elif ctx == "staticmethod":
        src = head + f"class C:\n    @staticmethod\n    def f({sig}){r}:\n        pass\n"
        path = ("C", "f")
    elif ctx == "classmethod":
        src = head + f"class C:\n    @classmethod\n    def f({sig}){r}:\n        pass\n"
        path = ("C", "f")
    elif ctx == "nested":
        src = head + f"class A:\n    class C:\n        def f({sig}){r}:\n            pass\n"
        path = ("A", "C", "f")
    else:
        # a second class-level definition after an __init__ (the visitor descends into __init__ and must come back)
        src = head + f"class C:\n    def __init__(self):\n        self.v = 1\n    def f({sig}){r}:\n        pass\n"
        path = ("C", "f")
    return src, path, params


def _cases_P(tier):
    maxc = _MAXC[tier]
    for shape in param_lists(maxc):
        for ctx in CONTEXTS:
            single = [("none", "0", None)] + [(a, "0", None) for a in ANN[1:]] + [("none", d, None) for d in DEFAULTS[1:]] + [("none", "0", r) for r in RETURNS[1:]]
            if tier == "quick":
                variants = single
            else:
                # the full product over the first five annotation patterns, eight defaults and five returns; the entries added later deviate one at a time
                variants = list(dict.fromkeys(list(itertools.product(ANN[:5], DEFAULTS[:8], RETURNS[:5])) + single))
            has_default = shape[5] or shape[6]
            for a, d, r in variants:
                if d != "0" and not has_default:
                    continue
                yield ("P", shape, ctx, a, d, r)


def _cases_P3(tier):
    """Quick tier only: the parameter lists that have THREE parameters of some kind (the thorough tier has them under every context and variant)."""
    if tier != "quick":
        return
    small = set(param_lists(2))
    for shape in param_lists(3):
        if shape not in small:
            yield ("P", shape, "module", "none", "0", None)
            yield ("P", shape, "method", "all", "0", "int")


def _cases_L(tier):
    for shape in param_lists(_MAXC[tier]):
        for where in ("value", "default"):
            yield ("L", shape, where)


SPELL = [
    ("import typing", "@typing.overload"),
    ("from typing import overload", "@overload"),
    ("import typing_extensions", "@typing_extensions.overload"),
    ("from typing_extensions import overload", "@overload"),
]


def _cases_O(tier):
    for n in range(1, 5):
        for seq in itertools.product("OIUG", repeat=n):
            for sp in range(4):
                for level in ("module", "class"):
                    yield ("O", "".join(seq), sp, level, "")
            if n <= 3:
                # the same definitions LOCAL to __init__ (whose body the visitor walks for instance attributes): nothing may raise, the
                # signatures of the class's real methods are reported as CPython sees them
                yield ("O", "".join(seq), 1, "init-body", "")
            # the overload decorator combined with another one written below / above it
            if n <= 3:
                for level in ("module", "class"):
                    for extra in ("below", "above"):
                        yield ("O", "".join(seq), 1, level, extra)


def _cases_R(tier):
    for n in range(1, 5):
        for seq in itertools.product("GSDF", repeat=n):
            yield ("R", "".join(seq))
    # the same with a second (dotted, identity) decorator written above (lower case) or below (s', d') an accessor: g s d / t e
    for n in range(1, 4 if tier == "quick" else 5):
        for seq in itertools.product("GSDFgsdte", repeat=n):
            if any(c in "gsdte" for c in seq):
                yield ("R", "".join(seq))
    # an __init__ assigning self.p (which goes through the property) anywhere between the accessors
    for n in range(2, 5):
        for seq in itertools.product("GSDi", repeat=n):  # (no plain def: an instance attribute displacing a method is Griffe's own tie-break, not CPython's class-level view)
            if "i" in seq and any(c in "GSD" for c in seq):
                yield ("R", "".join(seq))


def all_cases(tier):
    for dflt in DI_DEFAULTS:
        yield ("DI", dflt)
    yield from _cases_O(tier)
    yield from _cases_R(tier)
    yield from _cases_L(tier)
    yield from _cases_P(tier)
    yield from _cases_P3(tier)


def shards(tier):
    return list(range(NSHARDS))


# ---------------------------------------------------------------------------------------------------------------


def _norm(node):
    return ast.dump(node, annotate_fields=True, include_attributes=False)


def _expr_dump(text):
    return _norm(ast.parse(text, mode="eval").body)


def _visit(griffe, src):
    return griffe.visit("m", filepath=Path("m.py"), code=src)


def _lookup(mod, path):
    o = mod
    for p in path:
        o = o.members[p]
    return o


def _find_def(tree, path):
    body = tree.body
    node = None
    for p in path:
        node = next(n for n in body if isinstance(n, (ast.FunctionDef, ast.AsyncFunctionDef, ast.ClassDef)) and n.name == p and not (p == "f" and False))
        body = node.body
    return node


def _judge_params(acc, case, gparams, sig: inspect.Signature, argnodes, label):
    """gparams: list of griffe Parameter/ExprParameter; argnodes: {name: (annotation node|None, default node|None)}"""
    got = [(p.name, next(k for k, v in KIND.items() if v == p.kind.value)) for p in gparams]
    exp = [(n, INSPECT_KIND[p.kind]) for n, p in sig.parameters.items()]
    if [g[0] for g in got] != [e[0] for e in exp]:
        acc.violation(f"param/names-order/{label}", f"parameter names/order {got} != CPython {exp}", case, {"got": got, "expected": exp})
        return
    if got != exp:
        acc.violation(f"param/kind/{label}", f"parameter kinds {got} != CPython {exp}", case, {"got": got, "expected": exp})
        return
    for p in gparams:
        sp = sig.parameters[p.name]
        kind = INSPECT_KIND[sp.kind]
        if kind in ("va", "vk"):
            continue
        has = p.default is not None
        if has != (sp.default is not inspect.Parameter.empty):
            acc.violation(f"param/has-default/{label}/{kind}", f"parameter {p.name}: Griffe default {p.default!r}, CPython {'has' if not has else 'has no'} default", case)
            continue
        ann_node, def_node = argnodes[p.name]
        if has:
            try:
                if _expr_dump(str(p.default)) != _norm(def_node):
                    acc.violation("param/default-expr", f"default of {p.name}: {str(p.default)!r} is not the source expression {ast.unparse(def_node)!r}", case)
            except SyntaxError:
                acc.violation("param/default-expr-syntax", f"default of {p.name}: {str(p.default)!r} does not parse", case)
    for p in gparams:
        ann_node, _d = argnodes[p.name]
        gann = getattr(p, "annotation", None)
        if label.startswith("lambda"):
            continue
        if (gann is None) != (ann_node is None):
            acc.violation(f"param/annotation-presence/{label}", f"annotation of {p.name}: Griffe {gann!r}, source {'has one' if ann_node is not None else 'has none'}", case)
        elif gann is not None:
            exp_node = ann_node
            if isinstance(ann_node, ast.Constant) and isinstance(ann_node.value, str) and not label.startswith("future"):
                exp_node = ast.parse(ann_node.value, mode="eval").body  # one level of unquoting (no postponed evaluation)
            try:
                if _expr_dump(str(gann)) != _norm(exp_node):
                    acc.violation(f"param/annotation-expr/{label}", f"annotation of {p.name}: {str(gann)!r} vs source {ast.unparse(ann_node)!r}", case)
            except SyntaxError:
                acc.violation(f"param/annotation-syntax/{label}", f"annotation of {p.name}: {str(gann)!r} does not parse", case)


def _argnodes(args: ast.arguments):
    out = {}
    pos = list(args.posonlyargs) + list(args.args)
    defaults = [None] * (len(pos) - len(args.defaults)) + list(args.defaults)
    for a, d in zip(pos, defaults):
        out[a.arg] = (a.annotation, d)
    if args.vararg:
        out[args.vararg.arg] = (args.vararg.annotation, None)
    for a, d in zip(args.kwonlyargs, args.kw_defaults):
        out[a.arg] = (a.annotation, d)
    if args.kwarg:
        out[args.kwarg.arg] = (args.kwarg.annotation, None)
    return out


def _run_P(griffe, acc, case):
    _, shape, ctx, a, d, r = case
    src, path, params = make_source(shape, ctx, a, d, r)
    mod = _visit(griffe, src)
    fn = _lookup(mod, path)
    ns: dict = {}
    exec(src, ns)  # noqa: S102
    o = ns[path[0]]
    for p in path[1:]:
        o = vars(o)[p]
    o = getattr(o, "__func__", o)
    sig = inspect.signature(o)
    tree = ast.parse(src)
    node = _find_def(tree, path)
    if not fn.is_function:
        acc.violation(f"param/not-a-function/{ctx}", f"{'.'.join(path)} is a {fn.kind.value}", case)
        return
    _judge_params(acc, case, list(fn.parameters), sig, _argnodes(node.args), ctx)
    # container behaviour
    ps = fn.parameters
    for i, p in enumerate(ps):
        if ps[i] is not ps[p.name] or p.name not in ps:
            acc.violation("param/container", f"Parameters container: index {i} / name {p.name!r} disagree", case)
    if len(ps) != len(sig.parameters):
        acc.violation("param/container-len", f"len(parameters) {len(ps)} != {len(sig.parameters)}", case)
    # required-ness as CPython binds
    for p in ps:
        sp = sig.parameters[p.name]
        k = INSPECT_KIND[sp.kind]
        if k in ("va", "vk"):
            continue
        if p.required != (sp.default is inspect.Parameter.empty):
            acc.violation(f"param/required/{ctx}/{k}", f"{p.name}.required={p.required}", case)
    # return annotation
    if (fn.returns is None) != (node.returns is None):
        acc.violation(f"returns/presence/{ctx}", f"returns {fn.returns!r} vs source {r!r}", case)
    elif node.returns is not None:
        exp_node = node.returns
        if isinstance(exp_node, ast.Constant) and isinstance(exp_node.value, str) and not ctx.startswith("future"):
            exp_node = ast.parse(exp_node.value, mode="eval").body
        if _expr_dump(str(fn.returns)) != _norm(exp_node):
            acc.violation(f"returns/expr/{ctx}", f"returns {str(fn.returns)!r} vs source {r!r}", case)
    if ctx == "async" and "async" not in fn.labels:
        acc.violation("labels/async", "async def lacks the async label", case)
    n = len(sig.parameters)
    acc.case({"src": src}, outcome=f"{ctx}:{min(n, 3)}+", nontrivial=(n >= 2 or bool(shape[5] or shape[6])))
    acc.observe([str(p.name) + ":" + p.kind.value + ":" + str(p.default) + ":" + str(p.annotation) for p in ps])


def _run_L(griffe, acc, case):
    _, shape, where = case
    params = build_params(shape)
    text = "lambda " + render(params) + ": 0" if params else "lambda: 0"
    if where == "value":
        src = f"lam = {text}\n"
    else:
        src = f"def f(cb={text}):\n    pass\n"
    mod = _visit(griffe, src)
    expr = mod.members["lam"].value if where == "value" else mod.members["f"].parameters["cb"].default
    if type(expr).__name__ != "ExprLambda":
        acc.violation(f"lambda/not-stored/{where}", f"lambda stored as {type(expr).__name__}: {expr!r}", case)
        return
    lam = eval(text)  # noqa: S307
    sig = inspect.signature(lam)
    node = ast.parse(text, mode="eval").body
    _judge_params(acc, case, list(expr.parameters), sig, _argnodes(node.args), "lambda-" + where)
    # the stored lambda, rendered, is the lambda that was written (markers `/`, `*`, `*args`, `**kw` included)
    try:
        if _expr_dump(str(expr)) != _norm(node):
            acc.violation(f"lambda/render/{where}", f"lambda renders as {str(expr)!r}, written {text!r}", case)
    except SyntaxError:
        acc.violation(f"lambda/render-syntax/{where}", f"lambda renders as {str(expr)!r}, which does not parse (written {text!r})", case)
    acc.case({"src": src}, outcome=f"lambda-{where}", nontrivial=len(params) >= 2)
    acc.observe([p.name + p.kind.value + str(p.default) for p in expr.parameters])


def _run_O(griffe, acc, case):
    _, seq, sp, level, extra = case
    imp, deco = SPELL[sp]
    if level == "init-body":
        body = []
        for i, ch in enumerate(seq):
            name = "f" if ch in "OI" else "g"
            if ch in "OG":
                body.append(f"        {deco}")
            body.append(f"        def {name}(p{i}): ...")
        src = imp + "\nclass K:\n    def __init__(self, a, /, b=1, *, c=2):\n" + "\n".join(body) + "\n        self.v = a\n    def after(self, z, *args, k=None, **kw): ...\n"
        ns: dict = {}
        exec(src, ns)  # noqa: S102
        try:
            mod = _visit(griffe, src)
        except Exception as e:  # noqa: BLE001
            acc.violation(f"overload/init-body/raise-{type(e).__name__}", f"visiting a class whose __init__ defines local (overloaded) functions raised {e!r}", case, {"src": src})
            acc.case({"src": src}, outcome="overloads:init-body:raise", nontrivial=True)
            return
        for meth in ("__init__", "after"):
            want = list(inspect.signature(getattr(ns["K"], meth)).parameters)
            got = [p.name for p in mod["K"].members[meth].parameters] if meth in mod["K"].members else None
            if got != want:
                acc.violation("overload/init-body/signature", f"K.{meth}: parameters {got}, CPython {want}", case, {"src": src})
        acc.case({"src": src}, outcome="overloads:init-body", nontrivial=len(seq) >= 2)
        return
    ind = "    " if level == "class" else ""
    lines = [imp, "def other_deco(f): return f"]
    second = "@staticmethod" if level == "class" else "@other_deco"
    if level == "class":
        lines.append("class K:")
    pending: dict[str, list[str]] = {"f": [], "g": []}
    members: dict[str, tuple] = {}
    for i, ch in enumerate(seq):
        name = "f" if ch in "OI" else "g"
        tag = f"p{i}"
        if ch in "OG":
            if extra == "above":
                lines.append(f"{ind}{second}")
            lines.append(f"{ind}{deco}")
            if extra == "below":
                lines.append(f"{ind}{second}")
            lines.append(f"{ind}def {name}({tag}): ...")
            pending[name].append(tag)
        else:
            lines.append(f"{ind}def {name}({tag}): ...")
            members[name] = (tag, pending[name] or None)
            pending[name] = []
    src = "\n".join(lines) + "\n"
    mod = _visit(griffe, src)
    parent = mod.members["K"] if level == "class" else mod
    for name in ("f", "g"):
        if name in members:
            tag, ovs = members[name]
            m = parent.members.get(name)
            if m is None or not m.is_function:
                acc.violation("overload/impl-missing", f"implementation of {name} is not a function member", case, {"src": src})
                continue
            if [p.name for p in m.parameters] != [tag]:
                acc.violation("overload/impl-wrong", f"{name} member has parameters {[p.name for p in m.parameters]}, expected [{tag}] (last implementation)", case, {"src": src})
            got = None if not m.overloads else [o.parameters[0].name for o in m.overloads]
            if got != ovs:
                acc.violation("overload/attach", f"{name}.overloads {got} != {ovs} (signatures written above the implementation, in order)", case, {"src": src})
        elif name in parent.members:
            acc.violation("overload/phantom-member", f"{name} has only @overload definitions but is a member", case, {"src": src})
        left = [o.parameters[0].name for o in parent.overloads.get(name, [])]
        if left != pending[name]:
            acc.violation("overload/pending", f"parent.overloads[{name!r}] = {left}, expected {pending[name]} (overloads without implementation below them)", case, {"src": src})
    acc.case({"src": src}, outcome="overloads:" + str(sorted(len(v) for v in pending.values())), nontrivial=len(seq) >= 2)


def _run_R(griffe, acc, case):
    _, seq = case
    lines = ["import types", "ns = types.SimpleNamespace(ident=lambda f: f)", "class K:"]
    for i, ch in enumerate(seq):
        if ch == "G":
            lines += ["    @property", f"    def p(self): return {i}"]
        elif ch == "S":
            lines += ["    @p.setter", f"    def p(self, v{i}): ..."]
        elif ch == "D":
            lines += ["    @p.deleter", f"    def p(self): return {i}"]
        elif ch == "g":
            lines += ["    @ns.ident", "    @property", f"    def p(self): return {i}"]
        elif ch == "s":
            lines += ["    @ns.ident", "    @p.setter", f"    def p(self, v{i}): ..."]
        elif ch == "d":
            lines += ["    @ns.ident", "    @p.deleter", f"    def p(self): return {i}"]
        elif ch == "i":
            lines += [f"    def __init__(self, v{i}=0):", f"        self.p = v{i}"]
        elif ch == "t":
            lines += ["    @p.setter", "    @ns.ident", f"    def p(self, v{i}): ..."]
        elif ch == "e":
            lines += ["    @p.deleter", "    @ns.ident", f"    def p(self): return {i}"]
        else:
            lines += [f"    def p(self, q{i}): ..."]
    src = "\n".join(lines) + "\n"
    ns: dict = {}
    try:
        exec(src, ns)  # noqa: S102
    except Exception:  # noqa: BLE001
        try:
            _visit(griffe, src)
        except Exception as e:  # noqa: BLE001
            acc.violation(f"property/raise-on-invalid/{type(e).__name__}", f"visit raised {e!r} on a class CPython rejects", case, {"src": src})
        acc.case({"src": src}, outcome="property:cpython-rejects", nontrivial=False)
        return
    mod = _visit(griffe, src)
    m = mod.members["K"].members["p"]
    obj = vars(ns["K"])["p"]
    if isinstance(obj, property):
        if not m.is_attribute or "property" not in m.labels:
            acc.violation("property/replaced", f"p is a property in CPython but Griffe has {m.kind.value} labels={sorted(m.labels)}", case, {"src": src})
        else:
            for attr, f, label in (("setter", obj.fset, "writable"), ("deleter", obj.fdel, "deletable")):
                g = getattr(m, attr)
                if (g is None) != (f is None):
                    acc.violation(f"property/{attr}-presence", f"p.{attr}: Griffe {g!r}, CPython {f!r}", case, {"src": src})
                elif g is not None and g.lineno != f.__code__.co_firstlineno:
                    acc.violation(f"property/{attr}-which", f"p.{attr} is the def at line {g.lineno}, CPython uses the one at line {f.__code__.co_firstlineno}", case, {"src": src})
                if (label in m.labels) != (f is not None):
                    acc.violation(f"property/label-{label}", f"label {label} present={label in m.labels}, CPython {attr}={'set' if f else 'unset'}", case, {"src": src})
            first = obj.fget.__code__.co_firstlineno  # first decorator line, like every decorated definition
            if m.lineno != first:
                acc.violation("property/getter-which", f"property attribute is the definition starting at line {m.lineno}, CPython fget starts at line {first}", case, {"src": src})
    else:
        if not m.is_function:
            acc.violation("property/plain-def-lost", f"p is a plain function in CPython but Griffe has {m.kind.value}", case, {"src": src})
        elif [p.name for p in m.parameters] != list(inspect.signature(obj).parameters):
            acc.violation("property/plain-def-which", "p is not the last plain def", case, {"src": src})
    acc.case({"src": src}, outcome="property:" + ("prop" if isinstance(obj, property) else "func"), nontrivial=len(seq) >= 2)


RUN = {"P": _run_P, "L": _run_L, "O": _run_O, "R": _run_R}


# DI: the same question put to the INSPECTOR (griffe.inspect on the imported module): names, kinds and required-ness as CPython binds them, for default
# values whose repr is not a plain literal (angle brackets, enum members, sentinels, callables)
DI_PRELUDE = "import enum, os\nclass Mode(enum.Enum):\n    FAST = 1\nclass Pt:\n    def __repr__(self):\n        return '<Pt>'\n_MISSING = object()\n"
DI_DEFAULTS = ["0", "'<'", "'<b>'", "Mode.FAST", "Pt()", "_MISSING", "os.path.join", "len", "None", "(1, '<')", "lambda x: x", "Mode", "..."]


def _run_DI(griffe, acc, case):
    import sys

    from mc.core import sandbox

    _, dflt = case
    src = DI_PRELUDE + f"def fa(p, q={dflt}, /, r={dflt}, *args, k={dflt}, kr, **kw): ...\nclass K:\n    def m(self, a={dflt}, *, b={dflt}): ...\n    @staticmethod\n    def s(x={dflt}): ...\n"
    with sandbox.scratch_dir("c02di") as d, sandbox.interpreter_state():
        with open(f"{d}/c02di_mod.py", "w") as f:
            f.write(src)
        sys.path.insert(0, d)
        import importlib

        importlib.invalidate_caches()
        real = importlib.import_module("c02di_mod")
        mod = griffe.inspect("c02di_mod", filepath=Path(f"{d}/c02di_mod.py"), import_paths=[d])
        sys.modules.pop("c02di_mod", None)
        for path, obj in (("fa", real.fa), ("K.m", real.K.m), ("K.s", real.K.s)):
            gf = mod[path]
            sig = inspect.signature(obj)
            got = [(p.name, p.kind.value, bool(p.required)) for p in gf.parameters]
            exp = [(n, KIND[INSPECT_KIND[sp.kind]], sp.default is inspect.Parameter.empty and sp.kind not in (sp.VAR_POSITIONAL, sp.VAR_KEYWORD)) for n, sp in sig.parameters.items()]
            got = [(n, k, r and k not in ("variadic positional", "variadic keyword")) for n, k, r in got]
            acc.case({"src": src, "path": path}, outcome="inspected:" + ("ok" if got == exp else "diff"), nontrivial=True)
            acc.observe(got)
            if got != exp:
                bad = next((g, e) for g, e in zip(got + [None] * len(exp), exp + [None] * len(got)) if g != e)
                what = "names" if [g[0] for g in got] != [e[0] for e in exp] else "kind" if [g[1] for g in got] != [e[1] for e in exp] else "required"
                acc.violation(f"inspected/{what}/{'angle-bracket' if '<' in dflt or dflt in ('Mode.FAST', 'Pt()', '_MISSING', 'lambda x: x', 'Mode', 'len', 'os.path.join') else 'literal'}", f"{path} with default {dflt} inspected: {bad[0]} but CPython binds {bad[1]}", case)


RUN["DI"] = _run_DI


def run_shard(shard, tier):
    boot.boot()
    import griffe

    acc = Acc()
    for idx, case in enumerate(all_cases(tier)):
        if idx % NSHARDS != shard:
            continue
        try:
            RUN[case[0]](griffe, acc, case)
        except Exception as e:  # noqa: BLE001
            import traceback

            acc.violation(f"raise/{type(e).__name__}/{case[0]}", f"{e!r}", case, {"tb": traceback.format_exc()[-800:]})
    return acc.result()


def replay(case):
    boot.boot()
    import griffe

    acc = Acc()
    case = tuple(tuple(x) if isinstance(x, list) else x for x in case)
    RUN[case[0]](griffe, acc, case)
    return [(k, v["summary"], v["detail"]) for k, v in acc.violations.items()]
