"""C16 — Object-tree invariants hold after any history of member mutations.  (E2, model checking)

Universe: one ModulesCollection; slots m, n, m.C, m.C.f, m.f, m.v, and alias slots m.al->"m.f", m.a2->"m.C",
n.a3->"m.al" (alias to alias), n.bad->"m.zzz" (dangling), m.self->"m.self", m.cy->"n.cy", n.cy->"m.cy" (cycles).
Every insertion creates a FRESH object (an object is never inserted twice), so "parent is the container" is a
well-defined obligation.  Operations: set_member / __setitem__ / del_member / __delitem__ with the key given as a
name on the direct parent, a dotted string on the collection, or a tuple on the collection; get_member/__getitem__
(checked in every state); touching alias.target (lazy resolution); alias.target = obj; alias.target = alias.

Every transition calls the real method on real objects and, in lock-step, a dict-of-dicts reference model that
predicts the outcome class (ok / KeyError / AliasResolutionError / CyclicAliasError) and the resulting tree
(path -> (kind, creation label)).  Invariants I1..I7 are evaluated in every state.
"""
from __future__ import annotations

import hashlib
from pathlib import Path

from mc.core import bfs, boot, sandbox

PROPERTY = "C16"
LEVEL = "model_checking"
PROBE_RUN_ALL = False
RULE = (
    "BFS over all histories of API operations from two roots; a state is the canonical form (paths, kinds, creation labels "
    "renamed by first occurrence, alias targets, alias back-reference tables) of the real object graph; states counted are "
    "distinct canonical states; every transition is executed on the implementation and on the reference model"
)
ASSUMPTIONS = [
    "main family: each inserted object is fresh; family M re-inserts detached objects (never an object that is still attached somewhere); operations addressing members *through* an alias or an inherited view are only in family M (one alias to a class, one subclass)",
    "states in which an alias-valued target was created other than by lazy resolution (an object that aliases point at is replaced by an Alias; "
    "alias.target = <another alias>) are checked but not expanded further: the `aliases` table of an alias is a proxy for its final target and the "
    "property's back-reference clause is not well defined beyond that point",
    "soundness of the canonical form: it contains every field the operations' enabledness and the invariants read "
    "(members, parent, kind, module file suffix, alias target/target_path/resolved, every aliases table incl. stale entries)",
]
MANIFEST = {
    "category": "model_checking",
    "text": "Explicit-state breadth-first model checking of the member/alias mutation API on the real objects: all operation histories up to the depth bound (quick 4, thorough 7, or to the fixpoint of reachable canonical states when it is reached earlier) over a universe of 2 modules, a class, functions, an attribute and 7 aliases (chain, dangling, self, 2-cycle), with a dict reference model stepped in lock-step and invariants I1-I8 checked in every state; a second search (family M, c16m.py) over histories that MOVE a fixed cast of objects (detach, re-attach elsewhere or at the top level, bottom-up building, implicit stubs merges, an alias over a module) with invariants M1-M5. Two further exhaustive families judge the property's clauses directly: CH (chains of one to four aliases of aliases, every subset of links resolved, the end replaced through set_member by a function / class / alias elsewhere / dangling alias) and MS (a module and its stubs set under one name in both orders, same-name members of different kinds, aliases resolved or not before the merge).",
    "note": "Bounded by the universe and depth stated in the evidence; objects are always fresh; the reference model and canonical form are hand-written (their soundness argument is in DESIGN.md C16).",
    "technique": "explicit-state BFS model checking over API operation histories on the real implementation with a lock-step reference model",
}

# ---------------------------------------------------------------------------------------------------------------
# alphabet

KEYFORMS = ("name", "dotted", "tuple")
ALIAS_TARGETS = {
    "m.al": "m.f", "m.a2": "m.C", "n.a3": "m.al", "n.bad": "m.zzz", "m.self": "m.self", "m.cy": "n.cy", "n.cy": "m.cy",
    "m.f": "m.v",  # an alias can also displace the function at m.f (replacement of an object by an alias)
    "n.am": "m",  # an alias to the module m itself (modules are replaced too: by regular, stub and namespace modules)
    "n.a4": "m.f",  # a second alias to the same object (every alias of a replaced object must follow, not just the first)
}
# (slot path, value kind)
SET_VALUES = [
    ("m", "module"), ("m", "stubmodule"), ("m", "nsmodule"), ("n", "module"),
    ("m.C", "class"), ("m.C.f", "function"), ("m.f", "function"), ("m.f", "attribute"), ("m.v", "attribute"),
] + [(p, "alias") for p in ALIAS_TARGETS] + [("m.al", "alias-obj"), ("n.a4", "alias-obj")]
DEL_PATHS = ["m", "n", "m.C", "m.C.f", "m.f", "m.v", "m.g", "m.al", "m.a2", "n.a3", "n.bad", "m.cy"]  # (n.a4 is never deleted: keeps the alphabet small)
ALIAS_PATHS = [p for p in ALIAS_TARGETS if p != "m.f"] + ["m.f"]
RETARGETS = [("m.al", "m.C"), ("m.a2", "m.f"), ("n.a3", "m.f"), ("n.bad", "m.v"), ("m.al", "m.a2")]
ALL_PATHS = sorted({p for p, _ in SET_VALUES} | {"m.g", "m.C.g", "m.zzz"})


def _ops(tier):
    ops = []
    forms_full = tier == "thorough"
    for path, kind in SET_VALUES:
        for api in ("set_member", "setitem"):
            for kf in KEYFORMS:
                if "." not in path and kf == "dotted":
                    continue  # identical to "name" for a top-level slot
                if (not forms_full or kind == "alias-obj") and kind.startswith("alias") and (api, kf) not in (("set_member", "name"), ("setitem", "dotted"), ("set_member", "tuple")):
                    continue
                ops.append(("set", path, kind, api, kf))
    for path in DEL_PATHS:
        for api in ("del_member", "delitem"):
            for kf in KEYFORMS:
                if "." not in path and kf == "dotted":
                    continue
                if not forms_full and path in ("m.g", "n.bad", "m.cy", "m.a2") and kf != "dotted":
                    continue
                ops.append(("del", path, api, kf))
    for path in ALIAS_PATHS:
        ops.append(("touch", path))
        ops.append(("selftarget", path))
    for a, t in RETARGETS:
        ops.append(("retarget", a, t))
    ops.append(("setempty", "set_member"))
    ops.append(("setempty", "setitem"))
    return ops


_OPS: dict = {}


def ops_for(tier):
    if tier not in _OPS:
        _OPS[tier] = _ops(tier)
    return _OPS[tier]


# histories: a root prefix is a tuple of op indices as well, so that everything is replayable uniformly
def _root_histories(tier):
    ops = ops_for(tier)

    def idx(*op):
        return ops.index(op)

    populated = (
        idx("set", "m", "module", "set_member", "name"),
        idx("set", "n", "module", "set_member", "name"),
        idx("set", "m.C", "class", "set_member", "name"),
        idx("set", "m.C.f", "function", "set_member", "name"),
        idx("set", "m.f", "function", "set_member", "name"),
        idx("set", "m.v", "attribute", "set_member", "name"),
    )
    # a third root: two resolved aliases to the same function and no m.v (so that an alias m.f -> "m.v" cannot be resolved):
    # replacing m.f there makes the re-targeting of the first alias fail, which must not stop the others from following
    two_aliases = tuple(i for i in populated if ops[i][1] != "m.v") + (
        idx("set", "m.al", "alias", "set_member", "name"),
        idx("set", "n.a4", "alias", "set_member", "name"),
        idx("touch", "m.al"),
        idx("touch", "n.a4"),
    )
    return [(), populated, two_aliases]


def root_len(hist, tier):
    for r in sorted(_root_histories(tier), key=len, reverse=True):
        if tuple(hist[: len(r)]) == r:
            return len(r)
    return 0


def describe(hist, tier):
    ops = ops_for(tier)
    return [" ".join(map(str, ops[i])) for i in hist]


# ---------------------------------------------------------------------------------------------------------------
# the world: real objects + reference model


class MNode:
    """Reference-model node."""

    __slots__ = ("label", "kind", "members", "target_path", "suffix")

    def __init__(self, label, kind, target_path=None, suffix=None):
        self.label = label
        self.kind = kind
        self.members: dict[str, MNode] = {}
        self.target_path = target_path
        self.suffix = suffix


class World:
    def __init__(self):
        import griffe

        self.g = griffe
        self.coll = griffe.ModulesCollection()
        self.objs: dict[int, object] = {}  # label -> real object (strong refs: ids must not be reused)
        self.model: dict[str, MNode] = {}  # top-level model members
        self.next_label = 0
        # model's view of alias targets: label -> label | None (unresolved) | "?" (don't care, synced from impl)
        self.m_target: dict[int, object] = {}
        self.used_retarget = False
        self.tainted = False  # an alias-valued target was created other than by lazy resolution: successors are not explored
        self.loose: set[int] = set()  # aliases linked to an alias value whose chain was not resolvable then

    # -- creation --------------------------------------------------------------------------------------------
    def _new(self, kind, name, target=None):
        g = self.g
        label = self.next_label
        self.next_label += 1
        if kind == "module":
            o = g.Module(name, filepath=Path(name + ".py"))
            mn = MNode(label, "module", suffix=".py")
        elif kind == "stubmodule":
            o = g.Module(name, filepath=Path(name + ".pyi"))
            mn = MNode(label, "module", suffix=".pyi")
        elif kind == "nsmodule":
            o = g.Module(name, filepath=[Path("ns1") / name, Path("ns2") / name])  # a namespace package: several directories, never merged as stubs
            mn = MNode(label, "module", suffix="ns")
        elif kind == "class":
            o = g.Class(name)
            mn = MNode(label, "class")
        elif kind == "function":
            o = g.Function(name)
            mn = MNode(label, "function")
        elif kind == "attribute":
            o = g.Attribute(name)
            mn = MNode(label, "attribute")
        else:
            o = g.Alias(name, target)
            mn = MNode(label, "alias", target_path=target)
            self.m_target[label] = None
        self.objs[label] = o
        return label, o, mn

    def make_value(self, path, kind):
        name = path.rsplit(".", 1)[-1]
        if kind == "alias":
            return self._new("alias", name, ALIAS_TARGETS[path])
        if kind == "alias-obj":
            # an alias constructed over the target OBJECT (born resolved), as the visitor / wildcard expansion / inherited members do
            tn = self.m_lookup(ALIAS_TARGETS[path])
            if tn is None or tn.kind == "alias":
                return None
            label = self.next_label
            self.next_label += 1
            o = self.g.Alias(name, self.objs[tn.label])
            mn = MNode(label, "alias", target_path=ALIAS_TARGETS[path])
            self.m_target[label] = tn.label
            self.objs[label] = o
            return label, o, mn
        label, o, mn = self._new(kind, name)
        if kind == "stubmodule":
            # a stubs module arrives with two members of its own: f (also present in the runtime slot list) and g (stub-only)
            for sub in ("f", "g"):
                l2, o2, mn2 = self._new("function", sub)
                o.set_member(sub, o2)
                mn.members[sub] = mn2
        return label, o, mn

    # -- model helpers ------------------------------------------------------------------------------------------
    def m_lookup(self, path):
        parts = path.split(".")
        cur = self.model.get(parts[0])
        for p in parts[1:]:
            if cur is None or cur.kind == "alias":
                return None
            cur = cur.members.get(p)
        return cur

    def m_paths(self):
        out = {}

        def rec(prefix, members, parent_label):
            for name, node in members.items():
                p = prefix + name
                out[p] = (node, parent_label)
                if node.kind != "alias":
                    rec(p + ".", node.members, node.label)

        rec("", self.model, None)
        return out

    def _m_set(self, container: dict, name, mn, via_set_member, full_path):
        """Model of the final step of set_member/__setitem__ on a container dict. Returns list of I5 obligations."""
        follow = []
        if via_set_member and name in container:
            old = container[name]
            if old.kind != "alias":
                if old.kind == "module" and mn.kind == "module" and old.suffix != mn.suffix and "ns" not in (old.suffix, mn.suffix):
                    # implicit stubs merge: the regular module survives, stub-only members move into it
                    stubs, module = (old, mn) if old.suffix == ".pyi" else (mn, old)
                    self._m_merge(module, stubs)
                    mn = module
                follow = [(old.label, mn.label, full_path)]
        container[name] = mn
        return follow

    def _m_merge(self, module: MNode, stubs: MNode):
        for name, sm in list(stubs.members.items()):
            if name in module.members:
                if sm.kind == "alias":
                    continue
                om = module.members[name]
                if om.kind == "alias" and self.m_target.get(om.label) is None:
                    self.m_target[om.label] = "?"  # the merger reads om.kind, which resolves the alias if it can
                if om.kind == sm.kind and om.kind in ("module", "class"):
                    self._m_merge(om, sm)
            else:
                module.members[name] = sm


def _key_for(coll_or_obj_path, path, keyform):
    """Return (receiver path or None for the collection, key) for addressing `path`."""
    parts = path.split(".")
    if keyform == "name":
        return (".".join(parts[:-1]) or None), parts[-1]
    if keyform == "dotted":
        return None, path
    return None, tuple(parts)


EXC_CLASS = ("KeyError", "AliasResolutionError", "CyclicAliasError", "ValueError")


def _outcome(exc):
    if exc is None:
        return "ok"
    n = type(exc).__name__
    return n if n in EXC_CLASS else "RAISE:" + n


class Step:
    """Apply one op to implementation and model; collect violations."""

    def __init__(self, world: World, tier):
        self.w = world
        self.tier = tier

    def receiver(self, rpath):
        w = self.w
        if rpath is None:
            return w.coll, w.model, True
        mn = w.m_lookup(rpath)
        if mn is None or mn.kind == "alias":
            return None, None, False
        # real receiver reached through plain member dicts (not through the API under test)
        cur = w.coll.members[rpath.split(".")[0]]
        for p in rpath.split(".")[1:]:
            cur = cur.members[p]
        return cur, mn.members, False

    def apply(self, op):
        """Returns (impl_outcome, model_outcome, enabled, viols)."""
        w = self.w
        g = w.g
        kind = op[0]
        viols = []
        if kind == "set":
            _, path, vkind, api, kf = op
            rpath, key = _key_for(None, path, kf)
            recv, mcont, is_coll = self.receiver(rpath)
            if recv is None:
                return "n/a", "n/a", False, viols
            if not is_coll and vkind in ("module", "stubmodule", "nsmodule"):
                return "n/a", "n/a", False, viols
            made = w.make_value(path, vkind)
            if made is None:
                return "n/a", "n/a", False, viols  # alias-obj: the target object does not exist in this state
            label, val, mn = made
            # model
            parts = path.split(".") if kf != "name" else [key]
            cont = mcont
            m_out = "ok"
            for p in parts[:-1]:
                nxt = cont.get(p)
                if nxt is None:
                    m_out = "KeyError"
                    break
                if nxt.kind == "alias":
                    return "n/a", "n/a", False, viols
                cont = nxt.members
            follow = []
            if m_out == "ok":
                follow = w._m_set(cont, parts[-1], mn, api == "set_member", path)
            # implementation
            exc = None
            try:
                if api == "set_member":
                    recv.set_member(key, val)
                else:
                    recv[key] = val
            except Exception as e:  # noqa: BLE001
                exc = e
            i_out = _outcome(exc)
            if i_out == "ok" and m_out == "ok":
                for old_label, new_label, at in follow:
                    # followers are taken from the MODEL (aliases attached to the tree and what they target there), never from the
                    # implementation's own back-reference table, which is the thing under test
                    attached = {node.label: p for p, (node, _) in w.m_paths().items() if node.kind == "alias"}

                    before = dict(w.m_target)  # the model's targets as they were when the replacement happened

                    def is_alias_label(t):
                        return isinstance(t, int) and t in w.objs and w.objs[t].__class__.__name__ == "Alias"

                    def chain_end(label, hops=0):
                        # through attached and detached alias objects alike (an alias can be left pointing at an alias object that was displaced)
                        t = before.get(label)
                        while is_alias_label(t) and hops < 10:
                            t, hops = before.get(t), hops + 1
                        return t

                    direct = [l for l in attached if before.get(l) == old_label]
                    if direct and w.objs[new_label].__class__.__name__ == "Alias" and w.m_target.get(new_label) is None:
                        # registering a back-reference on a replacing *alias* reads its final target: resolution side effect
                        w.tainted = True
                        w.m_target[new_label] = "?"
                    new = w.objs[new_label]
                    for al_label, apath in attached.items():
                        alias = w.objs[al_label]
                        was_target = before.get(al_label)
                        if was_target == old_label:
                            # I5: the alias pointed at the replaced object => follows the replacement
                            if new.__class__.__name__ == "Alias" and alias._target is None and alias.target_path == at:
                                # the replacement is an unresolved alias: following it by path, unresolved like it, is the
                                # all-or-nothing form of "follows" (C06); dereferencing reaches the replacement
                                w.m_target[al_label] = None
                                w.m_lookup(apath).target_path = at
                                w.loose.discard(al_label)
                                continue
                            if alias._target is not new:
                                viols.append((f"inv/I5-target/{api}/{kf}", f"alias {apath} pointed at replaced {at} but does not target the replacement", None))
                            elif alias.target_path != at:
                                viols.append((f"inv/I5-target_path/{api}/{kf}", f"alias {apath} follows replaced {at} but target_path is {alias.target_path!r}, not {at!r}", {"target_path": alias.target_path, "expected": at}))
                            w.m_target[al_label] = new_label
                            if new.__class__.__name__ == "Alias":
                                w.loose.add(al_label)  # a back-reference can only be registered if the new alias resolves *now*
                            else:
                                w.loose.discard(al_label)
                        elif is_alias_label(was_target) and chain_end(al_label) == old_label:
                            # an alias reaching the replaced object THROUGH other aliases: Griffe lists it on the final target, so it may be
                            # re-pointed at the replacement directly (resolved, or by path when the replacement is an alias), or stay on its
                            # intermediate alias; all keep "follows" true
                            if alias._target is new:
                                w.m_target[al_label] = new_label
                                w.loose.discard(al_label)
                            elif new.__class__.__name__ == "Alias" and alias._target is None and alias.target_path == at:
                                w.m_target[al_label] = None
                                w.m_lookup(apath).target_path = at  # (it now names the slot of the replacement, not the intermediate alias any more)
                                w.loose.discard(al_label)
                        elif was_target not in (None, "?") and was_target != new_label and alias._target is new:
                            # it did not point at the replaced object (a stale back-reference: re-targeted elsewhere since)
                            viols.append((f"inv/I5-stolen/{api}/{kf}", f"alias {apath} pointed at #{was_target}, not at the replaced {at}, and was dragged to the replacement", None))
            return i_out, m_out, True, viols
        if kind == "setempty":
            api = op[1]
            label, val, mn = w.make_value("m.v", "attribute")
            exc = None
            try:
                if api == "set_member":
                    w.coll.set_member("", val)
                else:
                    w.coll[()] = val
            except Exception as e:  # noqa: BLE001
                exc = e
            return _outcome(exc), "ValueError", True, viols
        if kind == "del":
            _, path, api, kf = op
            rpath, key = _key_for(None, path, kf)
            recv, mcont, is_coll = self.receiver(rpath)
            if recv is None:
                return "n/a", "n/a", False, viols
            parts = path.split(".") if kf != "name" else [key]
            cont = mcont
            m_out = "ok"
            for p in parts[:-1]:
                nxt = cont.get(p)
                if nxt is None:
                    m_out = "KeyError"
                    break
                if nxt.kind == "alias":
                    return "n/a", "n/a", False, viols
                cont = nxt.members
            if m_out == "ok":
                if parts[-1] in cont:
                    del cont[parts[-1]]
                else:
                    m_out = "KeyError"
            exc = None
            try:
                if api == "del_member":
                    recv.del_member(key)
                else:
                    del recv[key]
            except Exception as e:  # noqa: BLE001
                exc = e
            i_out = _outcome(exc)
            if is_coll and api == "delitem" and len(parts) == 1 and m_out == "KeyError" and i_out == "RAISE:AttributeError":
                # ModulesCollection.__delitem__ falls back to `inherited_members`, which a collection does not have:
                # a missing module surfaces as AttributeError instead of KeyError.  The property does not prescribe the
                # exception type for deleting what is not there; accepted as the same outcome class.
                i_out = "KeyError"
            return i_out, m_out, True, viols
        # alias operations
        apath = op[1]
        mn = w.m_lookup(apath)
        if mn is None or mn.kind != "alias":
            return "n/a", "n/a", False, viols
        alias = w.objs[mn.label]
        if kind == "touch":
            m_out, chain = self.m_resolve(mn.label, set())
            exc = None
            try:
                t = alias.target
            except Exception as e:  # noqa: BLE001
                exc = e
            i_out = _outcome(exc)
            if i_out == "ok" and m_out == "ok":
                for al_label, tgt_label in chain:
                    w.m_target[al_label] = tgt_label
            return i_out, m_out, True, viols
        if kind == "selftarget":
            exc = None
            try:
                alias.target = alias
            except Exception as e:  # noqa: BLE001
                exc = e
            return _outcome(exc), "CyclicAliasError", True, viols
        if kind == "retarget":
            tpath = op[2]
            tn = w.m_lookup(tpath)
            if tn is None:
                return "n/a", "n/a", False, viols
            if tn.kind == "alias":
                # assigning an alias whose own chain cannot be resolved is outside the alphabet (misuse of the setter)
                out, _ = self.m_resolve(tn.label, set())
                if out != "ok" or tn.label == mn.label:
                    return "n/a", "n/a", False, viols
            tobj = w.objs[tn.label]
            exc = None
            try:
                alias.target = tobj
            except Exception as e:  # noqa: BLE001
                exc = e
            i_out = _outcome(exc)
            if i_out == "ok":
                w.used_retarget = True
                if tn.kind == "alias":
                    w.tainted = True
                    _o, chain = self.m_resolve(tn.label, set())
                    for al_label, tgt_label in chain:
                        w.m_target[al_label] = tgt_label
                w.m_target[mn.label] = tn.label
                if alias.target_path != tpath:
                    viols.append(("inv/retarget-target_path", f"alias.target = <{tpath}> left target_path {alias.target_path!r}", None))
            return i_out, "ok", True, viols
        raise AssertionError(op)

    def m_resolve(self, label, in_progress):
        """Model of lazy resolution: returns (outcome, [(alias label, target label)...]) without committing."""
        w = self.w
        cur = w.m_target.get(label)
        if cur is not None and cur != "?":
            return "ok", []
        if cur == "?":
            return "ok", []
        if label in in_progress:
            return "CyclicAliasError", []
        in_progress = in_progress | {label}
        node = next(n for n, _ in w.m_paths().values() if n.label == label) if any(n.label == label for n, _ in w.m_paths().values()) else None
        if node is None:
            return "?", []
        tn = w.m_lookup(node.target_path)
        if tn is None:
            return "AliasResolutionError", []
        if tn.label == label:
            return "CyclicAliasError", []
        chain = []
        if tn.kind == "alias" and w.m_target.get(tn.label) is None:
            out, sub = self.m_resolve(tn.label, in_progress)
            if out != "ok":
                return out, []
            chain.extend(sub)
        chain.append((label, tn.label))
        return "ok", chain


# ---------------------------------------------------------------------------------------------------------------
# invariants over the real object graph (+ comparison with the model tree)


def check_state(w: World, tier, sync_only=False):
    """State invariants. Returns [(base key, subject path, summary)]; also syncs the model's don't-care alias targets."""
    g = w.g
    viols = []
    label_of = {id(o): l for l, o in w.objs.items()}
    # walk the real tree
    real = {}

    def rec(prefix, members, container):
        for name, o in members.items():
            p = prefix + name
            real[p] = (o, container)
            if not isinstance(o, g.Alias):
                rec(p + ".", o.members, o)

    rec("", w.coll.members, w.coll)
    mpaths = w.m_paths()
    # model vs implementation: same paths, same labels, same kinds
    if set(real) != set(mpaths):
        viols.append(("modeldiff/paths", "", f"tree paths differ: impl-only {sorted(set(real) - set(mpaths))} model-only {sorted(set(mpaths) - set(real))}"))
    for p in set(real) & set(mpaths):
        o, cont = real[p]
        mn, _pl = mpaths[p]
        if label_of.get(id(o)) != mn.label:
            viols.append((f"modeldiff/object", p, f"{p} holds object #{label_of.get(id(o))}, model expects #{mn.label}"))
    # I8 (the converse of I6; "deleted members are gone"): whatever an object of the tree lists among its aliases is the alias that is
    # attached at that path now -- not one that was deleted or displaced since
    for p, (o, cont) in real.items():
        if isinstance(o, g.Alias):
            continue
        for apath, al in list(o.aliases.items()):
            if w.used_retarget and isinstance(al._target, g.Alias):
                continue  # (same waiver as I6: the table of the FINAL target is not maintained when an intermediate alias is re-targeted by hand)
            if real.get(apath, (None, None))[0] is not al:
                state = "deleted or displaced" if all(x[0] is not al for x in real.values()) else "attached elsewhere"
                viols.append(("inv/I8-dead-backref", p, f"{p}.aliases[{apath!r}] is an alias that is not the member at that path ({state})"))
    for p, (o, cont) in real.items():
        is_alias = isinstance(o, g.Alias)
        # I1 parent is the container
        if cont is w.coll:
            if (o._modules_collection if not is_alias else None) is not w.coll and not is_alias:
                viols.append((f"inv/I1-collection", p, f"{p}: _modules_collection is not the collection"))
            if o.parent is not None:
                viols.append((f"inv/I1-parent", p, f"top-level {p} has a parent"))
        elif o.parent is not cont:
            viols.append((f"inv/I1-parent", p, f"{p}: parent is {getattr(o.parent, 'path', o.parent)!r}, container is {cont.path!r}"))
        # path is its location
        try:
            op_ = o.path
        except Exception as e:  # noqa: BLE001
            op_ = "RAISE:" + type(e).__name__
        if op_ != p:
            viols.append((f"inv/I2-path", p, f"object stored at {p} reports path {op_!r}"))
        # I2/I3 lookups: dotted = tuple = chained, both APIs
        parts = p.split(".")
        for form, key in (("dotted", p), ("tuple", tuple(parts)), ("list", list(parts))):
            for api in ("get_member", "getitem"):
                try:
                    got = w.coll.get_member(key) if api == "get_member" else w.coll[key]
                except Exception as e:  # noqa: BLE001
                    got = e
                if got is not o:
                    viols.append((f"inv/I2-lookup/{api}/{form}", p, f"collection lookup of {key!r} via {api} gives {got!r}, not the object stored there"))
        cur = w.coll
        try:
            for part in parts:
                cur = cur.get_member(part)
        except Exception as e:  # noqa: BLE001
            cur = e
        if cur is not o:
            viols.append(("inv/I3-chained", p, f"chained lookup of {p} gives {cur!r}"))
        if is_alias:
            # I7 never targets itself
            t = o._target
            if t is not None:
                if t is o or (_safe_path(t) == p):
                    viols.append((f"inv/I7-self-target", p, f"alias {p} targets itself"))
                # I6 back-reference under current path
                evaluable = True
                if isinstance(t, g.Alias):
                    # `aliases` of an alias is a proxy for its final target's table: undefined when that chain cannot be
                    # resolved, and not maintained by explicit `alias.target = ...` assignments further down the chain
                    if w.used_retarget or label_of[id(o)] in w.loose:
                        evaluable = False
                try:
                    back = t.aliases.get(p)
                except (g.AliasResolutionError, g.CyclicAliasError):
                    evaluable = False
                    back = None
                except Exception as e:  # noqa: BLE001
                    back = e
                if evaluable and back is not o:
                    viols.append((f"inv/I6-backref", p, f"resolved alias {p} -> {_safe_path(t)} is not listed in its target's aliases under {p!r} (found {back!r})"))
                # target_path names the target
                tp = _safe_path(t)
                if o.target_path != tp and w.m_target.get(label_of[id(o)]) != "?":
                    viols.append((f"inv/I5-target_path-stale", p, f"alias {p}: target_path {o.target_path!r} but the target's path is {tp!r}"))
                # model agreement on the target
                mt = w.m_target.get(label_of[id(o)])
                if mt == "?":
                    w.m_target[label_of[id(o)]] = label_of.get(id(t))
                elif mt is None:
                    viols.append((f"modeldiff/alias-resolved", p, f"alias {p} is resolved in the implementation but unresolved in the model"))
                elif label_of.get(id(t)) != mt:
                    viols.append((f"modeldiff/alias-target", p, f"alias {p} targets #{label_of.get(id(t))}, model expects #{mt}"))
            else:
                mt = w.m_target.get(label_of[id(o)])
                if mt not in (None, "?"):
                    viols.append((f"modeldiff/alias-unresolved", p, f"alias {p} is unresolved in the implementation, model expects #{mt}"))
                w.m_target[label_of[id(o)]] = None
    # I4: every universe path absent from the model raises KeyError in all forms
    for p in ALL_PATHS:
        if p in mpaths:
            continue
        # skip paths that would navigate through an alias
        parts = p.split(".")
        through_alias = any((".".join(parts[:i]) in mpaths and mpaths[".".join(parts[:i])][0].kind == "alias") for i in range(1, len(parts)))
        if through_alias:
            continue
        for key in (p, tuple(parts)):
            for api in ("get_member", "getitem"):
                try:
                    got = w.coll.get_member(key) if api == "get_member" else w.coll[key]
                    viols.append((f"inv/I4-gone/{api}", p, f"{key!r} is absent/deleted but lookup returned {got!r}"))
                except KeyError:
                    pass
                except Exception as e:  # noqa: BLE001
                    viols.append((f"inv/I4-gone/{api}/{type(e).__name__}", p, f"lookup of absent {key!r} raised {type(e).__name__}"))
    return viols


def _safe_path(o):
    try:
        return o.path
    except Exception as e:  # noqa: BLE001
        return "RAISE:" + type(e).__name__


def canon(w: World):
    g = w.g
    label_of = {id(o): l for l, o in w.objs.items()}
    ren: dict[int, int] = {}

    def r(label):
        if label is None:
            return None
        if label not in ren:
            ren[label] = len(ren)
        return ren[label]

    rows = []

    def rec(prefix, members):
        for name in sorted(members):
            o = members[name]
            p = prefix + name
            l = r(label_of.get(id(o)))
            if isinstance(o, g.Alias):
                t = o._target
                rows.append((p, "alias", l, o.target_path, None if t is None else r(label_of.get(id(t))), None if t is None else _safe_path(t)))
            else:
                suffix = ("ns" if isinstance(o._filepath, list) else o._filepath.suffix) if isinstance(o, g.Module) and o._filepath is not None else ""
                rows.append((p, o.kind.value + suffix, l, tuple(sorted((k, r(label_of.get(id(a))), a.target_path, _safe_path(a)) for k, a in o.aliases.items()))))
                rec(p + ".", o.members)

    rec("", w.coll.members)
    # detached targets of in-tree aliases (their aliases tables drive future re-targeting)
    extra = []
    for row in list(rows):
        pass
    seen_targets = set()
    for l, o in w.objs.items():
        if isinstance(o, g.Alias) and o._target is not None and l in ren:
            t = o._target
            tl = label_of.get(id(t))
            if tl is not None and tl not in seen_targets and not isinstance(t, g.Alias):
                seen_targets.add(tl)
                extra.append((r(tl), t.kind.value, _safe_path(t), tuple(sorted((k, r(label_of.get(id(a))), a.target_path) for k, a in t.aliases.items()))))
    extra.sort(key=repr)
    return (tuple(rows), tuple(extra))


def _digest(c) -> bytes:
    return hashlib.blake2b(repr(c).encode(), digest_size=12).digest()


def sync_model(w: World):
    """Cheap part of check_state: adopt the implementation's answer where the model says don't-care."""
    g = w.g
    label_of = {id(o): l for l, o in w.objs.items()}

    def rec(members):
        for o in members.values():
            if isinstance(o, g.Alias):
                l = label_of[id(o)]
                t = o._target
                if t is None:
                    w.m_target[l] = None
                elif w.m_target.get(l) == "?":
                    w.m_target[l] = label_of.get(id(t))
            else:
                rec(o.members)

    rec(w.coll.members)


def _tag(op):
    if op[0] == "set":
        return f"set-{op[2]}/{op[3]}/{op[4]}"
    if op[0] == "del":
        return f"del/{op[2]}/{op[3]}"
    return op[0]


def _replay(hist, tier):
    ops = ops_for(tier)
    w = World()
    st = Step(w, tier)
    for i in hist:
        st.apply(ops[i])
        sync_model(w)
    return w, st


def digest_of(hist, tier):
    boot.boot()
    w, _ = _replay(hist, tier)
    return _digest(canon(w))


def _transition(hist, op, tier, pre=None):
    """Execute one transition on a fresh replay; report only invariant violations that this transition introduces."""
    w, st = _replay(hist, tier)
    if pre is None:
        pre = {(k, subj) for k, subj, _ in check_state(w, tier)}
        w, st = _replay(hist, tier)
    i_out, m_out, enabled, viols = st.apply(op)
    if not enabled:
        return None
    tag = _tag(op)
    out = [(k, summary, detail) for k, summary, detail in viols]
    if i_out != m_out:
        out.append((f"modeldiff/outcome/{tag}/{m_out}->{i_out}", f"{' '.join(map(str, op))}: model predicts {m_out}, implementation gives {i_out}", None))
    for k, subj, summary in check_state(w, tier):
        if (k, subj) not in pre:
            out.append((f"{k}/after-{tag}", summary, None))
    return i_out, out, w


def expand(hist, tier):
    """All successors of the state reached by `hist`."""
    ops = ops_for(tier)
    w0, _ = _replay(hist, tier)
    pre = {(k, subj) for k, subj, _ in check_state(w0, tier)}
    out = []
    for oi, op in enumerate(ops):
        try:
            with sandbox.time_limit(20):
                r = _transition(hist, op, tier, pre)
        except sandbox.CaseTimeout:
            # "no access loops": an operation (or the look at the state after it) that does not come back is a violation, not a stuck check
            out.append((oi, "hang", "HANG:" + repr((hist, oi)), [(f"hang/{_tag(op)}", f"{' '.join(map(str, op))}: no answer within 20 s", None)], False))
            continue
        if r is None:
            continue
        i_out, viols, w = r
        out.append((oi, i_out, _digest(canon(w)), viols, not w.tainted))
    return out


def bounds(tier):
    from mc.checks import c16m

    return {"operations": len(ops_for(tier)), "roots": [describe(r, tier) for r in _root_histories(tier)],
            "max_depth": DEPTH[tier], "universe_paths": ALL_PATHS,
            "moves_family": {"operations": len(c16m.OPS), "roots": [c16m.describe(r, tier) for r in c16m._root_histories(tier)], "max_depth": c16m.DEPTH[tier],
                             "cast": sorted(c16m.NAMES)}}


DEPTH = {"quick": 4, "thorough": 7}


def run_all(tier, jobs):
    from mc.checks import c16m
    from mc.core.driver import merge

    main = bfs.search("mc.checks.c16", tier, _root_histories(tier), DEPTH[tier], jobs, time_cap={"quick": 45, "thorough": 1500}[tier])
    moves = bfs.search("mc.checks.c16m", tier, c16m._root_histories(tier), c16m.DEPTH[tier], jobs, time_cap={"quick": 30, "thorough": 900}[tier])
    for r, name in ((main, "fresh-objects"), (moves, "moves")):
        r["counters"] = {f"{name}/{k}": v for k, v in r["counters"].items()}
        r["counters"][f"{name}/states"] = r["states"]
        r["counters"][f"{name}/transitions"] = r["transitions"]
        r["notes"] = [f"[{name}] {n}" for n in r["notes"]]
    chains = _run_chains(tier)
    chains["counters"] = {f"alias-chains/{k}": v for k, v in chains["counters"].items()}
    merges = _run_merges(tier)
    merges["counters"] = {f"stub-merges/{k}": v for k, v in merges["counters"].items()}
    return merge([main, moves, chains, merges])


# ---- family CH: chains of aliases of aliases ------------------------------------------------------------------------------------------
# lib.x is a function; m1.x -> lib.x, m2.x -> m1.x, ... up to four links; any subset of the links is resolved (one hop each, in index order) before lib.x is REPLACED through
# the tree-building API by a function, a class, an alias that resolves elsewhere, or a dangling alias.  Clause by clause from the property: every link follows the replacement
# (dereferencing reaches the new object / reports the alias error of the dangling replacement, never the old function), every resolved link is listed among its target's aliases
# under its current path, lookups agree, nothing else is raised.
def _run_chains(tier):
    boot.boot()
    import griffe

    from mc.core.driver import Acc

    acc = Acc()
    maxk = 4
    for k in range(1, maxk + 1):
        for mask in range(2 ** k):
            for vkind in ("function", "class", "alias-elsewhere", "alias-dangling"):
                for api in ("name", "dotted", "tuple"):
                    coll = griffe.ModulesCollection()
                    lib = griffe.Module("lib")
                    coll.set_member("lib", lib)
                    old = griffe.Function("x")
                    lib.set_member("x", old)
                    other = griffe.Module("other")
                    coll.set_member("other", other)
                    y = griffe.Function("y")
                    other.set_member("y", y)
                    links = []
                    prev = "lib.x"
                    for i in range(1, k + 1):
                        m = griffe.Module(f"m{i}")
                        coll.set_member(f"m{i}", m)
                        a = griffe.Alias("x", prev)
                        m.set_member("x", a)
                        links.append(a)
                        prev = f"m{i}.x"
                    for i in range(k):
                        if mask >> i & 1:
                            links[i].resolve_target()
                    new = {"function": lambda: griffe.Function("x"), "class": lambda: griffe.Class("x"), "alias-elsewhere": lambda: griffe.Alias("x", "other.y"),
                           "alias-dangling": lambda: griffe.Alias("x", "nowhere.z")}[vkind]()
                    case = {"history": [f"CH: chain of {k}", f"resolved links {[i + 1 for i in range(k) if mask >> i & 1]}", f"replace lib.x by {vkind} via set_member({api})"]}
                    probs = []
                    try:
                        if api == "name":
                            lib.set_member("x", new)
                        elif api == "dotted":
                            coll.set_member("lib.x", new)
                        else:
                            coll.set_member(("lib", "x"), new)
                    except Exception as e:  # noqa: BLE001
                        probs.append((f"CH-raise/{type(e).__name__}", f"set_member raised {e!r}"))
                    final = {"function": new, "class": new, "alias-elsewhere": y, "alias-dangling": None}[vkind]
                    if not probs:
                        if coll["lib.x"] is not new or coll.get_member(("lib", "x")) is not new or new.parent is not lib:
                            probs.append(("CH-tree", "the replacement is not what lookups by dotted path / tuple return, or its parent is not its container"))
                        for i, a in enumerate(links):
                            try:
                                ft = a.final_target
                                got = "old" if ft is old else "new" if ft is final else "other"
                            except (griffe.AliasResolutionError, griffe.CyclicAliasError) as e:
                                got = type(e).__name__
                            except Exception as e:  # noqa: BLE001
                                got = "RAISE:" + type(e).__name__
                            want = "AliasResolutionError" if final is None else "new"
                            if got != want:
                                probs.append((f"CH-follow/{vkind}/{'resolved' if mask >> i & 1 else 'unresolved'}-link/{min(i + 1, 3)}-hops", f"m{i + 1}.x after the replacement: {got}, expected {want}"))
                            elif final is not None and a._target is not None:
                                listed = final.aliases.get(a.path)
                                if listed is not a:
                                    probs.append((f"CH-not-listed/{vkind}/{min(i + 1, 3)}-hops", f"m{i + 1}.x reaches {final.path} and is resolved, but is not listed there under {a.path!r} (listed: {sorted(final.aliases)})"))
                            if final is None and a._target is not None and not a._target.is_alias:
                                probs.append((f"CH-partial/{vkind}/{min(i + 1, 3)}-hops", f"m{i + 1}.x stays resolved to an object although the chain now ends at a dangling alias"))
                    acc.states += 1
                    acc.transitions += 1 + bin(mask).count("1")
                    acc.traces += 1
                    acc.case(case, outcome="CH:" + ("ok" if not probs else probs[0][0].split("/")[0]), nontrivial=k >= 2)
                    acc.observe([p_[0] for p_ in probs])
                    for key, summary in probs:
                        acc.violation(key, f"chain of {k}, resolved links {[i + 1 for i in range(k) if mask >> i & 1]}, lib.x replaced by {vkind} ({api}): {summary}", case, None, size=k * 10 + bin(mask).count("1"))
    acc.notes.append(f"[alias-chains] chains up to {maxk} links x every subset of resolved links x 4 replacement kinds x 3 key forms")
    return acc.result()


# ---- family MS: a module and its stubs set under one name, members of the same name and of different kinds ---------------------------------
# m.sub is set twice (stubs then regular module, or the reverse); both declare `h` (stubs: a function; regular module: a function, an attribute, a class, or nothing) and the
# stubs declare `only_stub`; an alias n.ah -> m.sub.h (and n.ao -> m.sub.only_stub) is resolved, or not, BEFORE the second set_member.  Afterwards: one module at m.sub, every
# member's parent is its container, every object is retrievable by its own path, and the aliases reach what is at their target path now.
def _run_merges(tier):
    boot.boot()
    import griffe
    from pathlib import Path

    from mc.core.driver import Acc

    acc = Acc()
    for order in ("stubs-first", "regular-first"):
        for rk in ("function", "attribute", "class", "absent"):
            for resolved in (False, True):
                for api in ("name", "dotted"):
                    coll = griffe.ModulesCollection()
                    m = griffe.Module("m", filepath=Path("m/__init__.py"))
                    n = griffe.Module("n", filepath=Path("n.py"))
                    coll.set_member("m", m)
                    coll.set_member("n", n)
                    stub = griffe.Module("sub", filepath=Path("m/sub.pyi"))
                    stub.set_member("h", griffe.Function("h", returns="int"))
                    stub.set_member("only_stub", griffe.Function("only_stub"))
                    reg = griffe.Module("sub", filepath=Path("m/sub.py"))
                    if rk != "absent":
                        reg.set_member("h", {"function": lambda: griffe.Function("h"), "attribute": lambda: griffe.Attribute("h", value="1"), "class": lambda: griffe.Class("h")}[rk]())
                    ah, ao = griffe.Alias("ah", "m.sub.h"), griffe.Alias("ao", "m.sub.only_stub")
                    n.set_member("ah", ah)
                    n.set_member("ao", ao)
                    first, second = (stub, reg) if order == "stubs-first" else (reg, stub)
                    case = {"history": ["MS: " + order, f"regular h: {rk}", f"aliases resolved before the second set_member: {resolved}", f"set_member({api})"]}
                    probs = []
                    try:
                        m.set_member("sub", first)
                        if resolved:
                            for a in (ah, ao):
                                try:
                                    a.resolve_target()
                                except griffe.AliasResolutionError:
                                    pass  # (nothing there yet: regular module first, without that member)
                        if api == "name":
                            m.set_member("sub", second)
                        else:
                            coll.set_member("m.sub", second)
                    except Exception as e:  # noqa: BLE001
                        probs.append((f"MS-raise/{type(e).__name__}", f"raised {e!r}"))
                    if not probs:
                        sub = coll["m.sub"]
                        if sub.parent is not m or m.members["sub"] is not sub:
                            probs.append(("MS-tree/module", "m.sub: parent / container disagree"))
                        for name, mem in sub.members.items():
                            if mem.parent is not sub:
                                probs.append(("MS-parent", f"m.sub.{name}: parent is {getattr(mem.parent, 'path', None)!r} ({getattr(mem.parent, 'filepath', None)})"))
                            if coll.get_member(mem.path) is not mem:
                                probs.append(("MS-own-path", f"m.sub.{name} says its path is {mem.path!r}; the collection has another object there"))
                        if "only_stub" not in sub.members or (rk != "absent" and sub.members["h"].kind.value != rk):
                            probs.append((f"MS-members/{rk}", f"members of m.sub after the merge: {[(k, v.kind.value) for k, v in sub.members.items()]}"))
                        for a, tname in ((ah, "h"), (ao, "only_stub")):
                            try:
                                ft = a.final_target
                            except Exception as e:  # noqa: BLE001
                                probs.append((f"MS-alias-raise/{type(e).__name__}/{tname}", f"n.{a.name}.final_target raised {e!r}"))
                                continue
                            if ft is not sub.members.get(tname):
                                kinds = "same-kind" if (tname == "only_stub" or rk in ("function", "absent")) else "kind-mismatch"
                                probs.append((f"MS-alias-stale/{kinds}/{'resolved-before' if resolved else 'unresolved-before'}", f"n.{a.name} -> m.sub.{tname} reaches an object that is not the member at that path any more ({ft.kind.value} vs {sub.members[tname].kind.value if tname in sub.members else None})"))
                            elif a._target is not None and ft.aliases.get(a.path) is not a:
                                probs.append(("MS-not-listed", f"n.{a.name} is resolved to m.sub.{tname} but not listed there under its path"))
                    acc.states += 1
                    acc.transitions += 2
                    acc.traces += 1
                    acc.case(case, outcome="MS:" + ("ok" if not probs else probs[0][0].split("/")[0]), nontrivial=True)
                    acc.observe([p_[0] for p_ in probs])
                    for key, summary in probs:
                        acc.violation(key, f"{order}, regular h is {rk}, aliases {'resolved' if resolved else 'unresolved'} before ({api}): {summary}", case, None, size=1)
    acc.notes.append("[stub-merges] 2 orders x 4 kinds of the regular member x aliases resolved or not x 2 key forms")
    return acc.result()


def replay(case):
    boot.boot()
    if case["history"] and case["history"][0].startswith("MS: "):
        res = _run_merges("quick")
        return [(k, v["summary"], v["detail"]) for k, v in res["violations"].items()]
    if case["history"] and case["history"][0].startswith("CH: "):
        res = _run_chains("quick")
        return [(k, v["summary"], v["detail"]) for k, v in res["violations"].items()]
    if case["history"] and case["history"][0].startswith("M: "):
        from mc.checks import c16m

        return c16m.replay_case(case)
    # a recorded history is a list of op descriptions (robust against alphabet re-indexing)
    tier = "thorough"
    ops = ops_for(tier)
    text = {" ".join(map(str, o)): i for i, o in enumerate(ops)}
    hist = tuple(text[t] for t in case["history"])
    r = _transition(hist[:-1], ops[hist[-1]], tier)
    return [] if r is None else r[1]
