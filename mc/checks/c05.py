"""C05 — Imports, re-exports and wildcards resolve exactly as CPython imports them.

Package pkg/{__init__, a, b}.py with an acyclic import graph (init <- a <- b).  Module `a` is an ordered selection of <= 2
(quick) / 3 (thorough) statements from a menu (local def / class / value of x, y, _p; from-imports, aliased imports and
wildcard imports of b in relative and absolute spelling; `from . import b`; `import pkg.b`; every __all__ form incl. those
assembled from b.__all__), `b` is one of 7 leaf variants (with/without __all__, private names, rebinding), `__init__` one of
a menu of statements importing from a and/or b.  Statement ORDER is part of the space (wildcard before/after a local
definition of the same name, __all__ above/below).
Oracle: CPython.  The package is really imported; for every module, vars(module) is mapped name -> defining path
(functions/classes by __module__.__qualname__, values are V("pkg.b:x") instances that carry their birthplace, modules by name).
Griffe: load(resolve_aliases=True); member names (no wildcard placeholder left) and final target paths must be equal;
every resolved alias must present its target's kind/docstring/labels/parameters and re-based member paths; Module.exports == __all__.
"""
from __future__ import annotations

import importlib
import itertools
import os
import sys
import types

from mc.core import boot, sandbox
from mc.core.driver import Acc

PROPERTY = "C05"
LEVEL = "exploration"
NSHARDS = 64
RULE = (
    "all ordered statement selections for module a x leaf variants of b x importing statements of __init__; packages CPython refuses to import are counted and skipped; "
    "non-trivial = the package contains at least one import between its modules and CPython imports it; distinct by construction"
)
ASSUMPTIONS = ["CPython 3.12 import system is the reference", "names x, y, _p stand for public/private identifiers; member names never collide with submodule names (documented Griffe limitation)",
               "__all__ is built only from list literals, +, += and star-unpacking of other modules' __all__"]
MANIFEST = {
    "category": "exploration",
    "text": "Bounded exhaustive enumeration of three-module packages (ordered statement selections incl. every import / wildcard / __all__ form) written to disk, imported by CPython and loaded statically with alias resolution; visible names and the defining object of every name must coincide, resolved aliases must proxy their targets, exports must equal __all__. Further families: upward imports, a sub-package, and __all__ lists assembled at three places of one package under every shape of the parent package's own list. The __init__ menu includes the same wildcard import written twice around a re-binding of one of its names, and __all__ assembled from two modules with an augmented assignment.",
    "note": "CPython is the oracle on every importable package; the residual rejection rate is reported in the evidence.",
    "technique": "model checking by exhaustive small-scope enumeration of packages on the real loader, CPython import as oracle",
}

PRE = "from vmod import V\n"
# (label, text) ; {M} is the module's own dotted name
LOCAL = [
    ("def-x", "def x():\n    '''doc x'''"), ("class-y", "class y:\n    '''doc y'''\n    def m(self, p=1): ...\n    k = 1"), ("val-x", "x = V('{M}:x')"), ("val-y", "y = V('{M}:y')"), ("val-_p", "_p = V('{M}:_p')"),
    ("mod-alias-vm", "import vmod as vm"),
    # the optional-dependency idiom: the import succeeds, the fallback assignment in the `except` / `else` clause never runs
    ("try-import-fallback", "try:\n    from vmod import V as VF\n    import vmod as vf_mod\nexcept ImportError:\n    VF = None\n    vf_mod = None"),
    ("if-import-else", "if True:\n    from vmod import V as VG\nelse:\n    VG = None"),  # a name bound to a MODULE: carried by wildcard imports like any other public name, through any number of levels
]
ALLS = [("all-x", "__all__ = ['x']"), ("all-y", "__all__ = ['y']"), ("all-x-_p", "__all__ = ['x', '_p']"), ("all-empty", "__all__ = []"),
        ("all=all+y", "__all__ = __all__ + ['y']"), ("all=[*all,_p]", "__all__ = [*__all__, '_p']")]
IMPORTS_FROM_B = [
    ("from-b-x", "from .b import x"), ("from-b-x-as-y", "from .b import x as y"), ("from-b-_p", "from .b import _p"), ("abs-from-b-y", "from pkg.b import y"),
    ("wild-rel-b", "from .b import *"), ("wild-abs-b", "from pkg.b import *"), ("import-pkg-b", "import pkg.b"), ("from-dot-b", "from . import b"),
    ("tc-wild-b", "from typing import TYPE_CHECKING\nif TYPE_CHECKING:\n    from .b import *"),  # nothing is bound at runtime
    ("all+b", "__all__ = ['x'] + b.__all__"), ("all+=b", "__all__ += b.__all__"), ("all*b", "__all__ = [*b.__all__, 'y']"),
]
A_MENU = LOCAL + ALLS + IMPORTS_FROM_B
B_VARIANTS = {
    "b-plain": ["def-x", "class-y"], "b-vals": ["val-x", "val-_p"], "b-all-private": ["def-x", "val-_p", "all-x-_p"], "b-all-y": ["def-x", "class-y", "all-y"],
    "b-empty": [], "b-rebind": ["val-x", "def-x"], "b-y-only": ["val-y"], "b-mod-alias": ["def-x", "mod-alias-vm"],
    "b-all-selfref": ["def-x", "class-y", "val-_p", "all-x", "all=all+y", "all=[*all,_p]"],
}
INIT_MENU = [
    ("none", ""), ("wild-rel-a", "from .a import *"), ("wild-abs-a", "from pkg.a import *"), ("from-a-x", "from .a import x"), ("from-a-y-as-x", "from .a import y as x"),
    ("wild-a-then-def-x", "from .a import *\ndef x(): ..."), ("def-x-then-wild-a", "def x(): ...\nfrom .a import *"), ("wild-a-wild-b", "from .a import *\nfrom .b import *"),
    ("wild-b-wild-a", "from .b import *\nfrom .a import *"), ("from-dot-a-all", "from . import a\n__all__ = ['x'] + a.__all__\nx = V('pkg:x')"), ("import-pkg-a", "import pkg.a"),
    ("wild-a-all", "from .a import *\n__all__ = ['y']"),
    # the same wildcard import written twice around another one (the last statement wins, again), and a type-guarded one after a real one (binds nothing)
    ("wild-a-b-a", "from .a import *\nfrom .b import *\nfrom .a import *"), ("wild-b-a-b", "from .b import *\nfrom .a import *\nfrom .b import *"),
    ("wild-a-tc-wild-b", "from .a import *\nfrom typing import TYPE_CHECKING\nif TYPE_CHECKING:\n    from .b import *"),
    # the same wildcard import written twice with one of its names re-bound in between (by a definition, by another import): the second one binds it again
    ("wild-a-def-x-wild-a", "from .a import *\ndef x(): ...\nfrom .a import *"), ("wild-a-from-b-x-wild-a", "from .a import *\nfrom .b import x\nfrom .a import *"),
    # __all__ assembled from the lists of TWO modules, the second one added by an augmented assignment
    ("all*a+=b", "from . import a, b\nfrom .a import *\nfrom .b import *\n__all__ = [*a.__all__]\n__all__ += b.__all__"),
    ("all+a+=b", "from . import a, b\nfrom .a import *\nfrom .b import *\n__all__ = ['a'] + a.__all__\n__all__ += b.__all__"),
]
INIT_MENU_EXTRA = [
    ("from-a-_p", "from .a import _p"), ("wild-a-all*", "from . import a\nfrom .a import *\n__all__ = [*a.__all__]"), ("from-b-x", "from .b import x"), ("val-x-then-wild-a", "x = V('pkg:x')\nfrom .a import *"),
    ("wild-a-then-val-x", "from .a import *\nx = V('pkg:x')"), ("all+=a", "from . import a\n__all__ = ['x']\n__all__ += a.__all__\nx = V('pkg:x')"),
]
# U: upward imports. Module a imports from its PARENT package, whose __init__ imports from b only (graph a -> init -> b, still acyclic)
UP_MENU = [("wild-parent", "from pkg import *"), ("wild-dot", "from . import *"), ("from-parent-x", "from pkg import x"), ("from-dot-y", "from . import y"), ("from-parent-x-as-y", "from pkg import x as y")]
UP_INITS = [("up:wild-b", "from .b import *"), ("up:from-b-x", "from .b import x"), ("up:def-x", "def x(): ..."), ("up:val-x-all", "x = V('pkg:x')\ny = V('pkg:y')\n__all__ = ['x']"),
            ("up:wild-b-all-y", "from .b import *\n__all__ = ['y']"), ("up:wild-b-then-def-x", "from .b import *\ndef x(): ..."), ("up:def-x-then-wild-b", "def x(): ...\nfrom .b import *")]
# S: a sub-package. pkg/{__init__, top}.py and pkg/sub/{__init__, m}.py; sub/__init__ imports from its parent package (level 2), from the
# parent's module, from its own module; pkg/sub/m.py imports upwards as well
S_MENU = [("up-x", "from .. import x"), ("up-x-as-z", "from .. import x as z"), ("up-star", "from .. import *"), ("up-top-x", "from ..top import x"), ("up-top-star", "from ..top import *"),
          ("up-top-mod", "from .. import top"), ("abs-x", "from pkg import x"), ("dot-m", "from . import m"), ("m-star", "from .m import *"), ("m-w", "from .m import w"), ("def-x", "def x():\n    \"\"\"doc x\"\"\""),
          ("all-x", "__all__ = ['x']")]
S_INITS = [("sub:defs", "def x(): ...\ny = V('pkg:y')"), ("sub:wild-top", "from .top import *"), ("sub:from-top-all", "from .top import x\n__all__ = ['x']")]
S_MODS = {"m-plain": "def w(): ...", "m-up": "from .. import x\ndef w(): ...", "m-up-top": "from ..top import y as w"}
S_TOP = "def x():\n    \"\"\"top x\"\"\"\nclass y:\n    \"\"\"top y\"\"\"\n_p = V('pkg.top:_p')\n"
_MAXA = {"quick": 2, "thorough": 3}


def bounds(tier):
    return {"a_menu": [m[0] for m in A_MENU], "a_max_statements": _MAXA[tier], "b_variants": list(B_VARIANTS), "init_menu": [m[0] for m in (INIT_MENU + (INIT_MENU_EXTRA if tier == "thorough" else []))]}


CORE_INITS = ["none", "wild-rel-a", "from-a-x", "wild-a-then-def-x", "wild-a-wild-b", "from-dot-a-all"]


def all_cases(tier):
    labels = [m[0] for m in A_MENU]
    for n in range(0, _MAXA[tier] + 1):
        # thorough: three-statement bodies of `a` meet the six core __init__ statements, shorter ones the whole (extended) menu
        if tier == "thorough":
            inits = [i for i in INIT_MENU if i[0] in CORE_INITS] if n == 3 else INIT_MENU + INIT_MENU_EXTRA
        else:
            inits = INIT_MENU
        for sel in itertools.permutations(labels, n):
            if not _plausible(sel):
                continue
            for bv in B_VARIANTS:
                for init in inits:
                    yield (sel, bv, init[0])
    yield from _cases_up(tier)
    yield from _cases_sub(tier)
    yield from _cases_exports(tier)
    yield from _cases_deep(tier)


def _cases_up(tier):
    up = [m[0] for m in UP_MENU]
    other = [m[0] for m in LOCAL + ALLS]
    sels = [(u,) for u in up] + [(u, o) for u in up for o in other] + [(o, u) for u in up for o in other] + [(u1, u2) for u1 in up for u2 in up if u1 != u2]
    if tier == "thorough":
        sels += [(o1, u, o2) for u in up for o1 in other for o2 in other if o1 != o2]
    for sel in sels:
        for bv in B_VARIANTS:
            for init in UP_INITS:
                yield (sel, bv, init[0])


def _cases_sub(tier):
    labels = [m[0] for m in S_MENU]
    for n in (1, 2) if tier == "quick" else (1, 2, 3):
        for sel in itertools.permutations(labels, n):
            for mv in S_MODS:
                if n == 3 and mv != "m-plain":
                    continue
                for init in S_INITS:
                    yield (sel, mv, init[0])


# E: `__all__` assembled from other modules' `__all__` at several places of ONE package at once (a module, the package, a sub-package), under a package
# whose own `__all__` is absent / a plain list / empty / composite: every module's list must be expanded whatever its parent's list looks like
E_AFORMS = {"plus": "__all__ = b.__all__ + ['y']", "star": "__all__ = [*b.__all__, 'y']", "aug": "__all__ = ['y']\n__all__ += b.__all__"}
E_IFORMS = {"none": "from .c import *", "plain": "from .c import *\n__all__ = ['x', 'y']", "empty": "__all__ = []", "composite": "from . import a\nfrom .a import *\n__all__ = [*a.__all__]"}
E_SUB = {"pkg/sub/__init__.py": "from . import m\nfrom .m import *\n__all__ = m.__all__ + ['s']\ndef s(): ...\n", "pkg/sub/m.py": "__all__ = ['w']\ndef w(): ...\ndef v(): ...\n",
         "pkg/sub/n.py": "from pkg.sub import *\n"}


# D: relative imports of every level from an `__init__` module and from a plain module THREE packages deep (pkg/mid/deep/): one, two and three dots
D_STMTS = ["from . import leaf", "from .leaf import w", "from .. import base", "from ..base import Base", "from ..base import *", "from .. import mid_x", "from ... import top", "from ...top import x",
           "from ...top import *", "from pkg.mid.base import reg as abs_reg", "from . import leaf as lf", "from .. import base as bs", "import pkg.mid.deep.sibling as sb"]
D_LEAF = ["from . import sibling", "from .sibling import s", "from .. import base as leaf_base", "from ..base import Base as LB", "from ... import mid", "from ...mid.base import reg", "from ... import top as leaf_top"]


def _cases_deep(tier):
    for i in range(len(D_STMTS)):
        yield ((i,), "d", "deep:")
    yield (tuple(range(len(D_STMTS))), "d", "deep:")


def _files_deep(case):
    sel = case[0]
    files = {
        "vmod.py": "class V:\n    def __init__(self, origin):\n        self.origin = origin\n",
        "pkg/__init__.py": "",
        "pkg/top.py": "def x(): ...\nclass y: ...\ndef _p(): ...\n",
        "pkg/mid/__init__.py": "def mid_x(): ...\n",
        "pkg/mid/base.py": "class Base: ...\ndef reg(): ...\n",
        "pkg/mid/deep/__init__.py": "\n".join(D_STMTS[i] for i in sel) + "\n",
        "pkg/mid/deep/sibling.py": "def s(): ...\n",
        "pkg/mid/deep/leaf.py": "def w(): ...\n" + "\n".join(D_LEAF) + "\n",
    }
    return files, ("pkg.top", "pkg.mid.base", "pkg.mid", "pkg.mid.deep.sibling", "pkg.mid.deep.leaf", "pkg.mid.deep")


def _cases_exports(tier):
    for af in E_AFORMS:
        for inf in E_IFORMS:
            for sub in ("nosub", "sub"):
                yield ((af, inf, sub), "e", "exp:")


def _files_exports(case):
    af, inf, sub = case[0]
    files = {
        "vmod.py": "class V:\n    def __init__(self, origin):\n        self.origin = origin\n",
        "pkg/__init__.py": E_IFORMS[inf] + "\n",
        "pkg/b.py": "__all__ = ['x', '_p']\ndef x(): ...\ndef _p(): ...\ndef hidden(): ...\n",
        "pkg/a.py": "from . import b\nfrom .b import *\n" + E_AFORMS[af] + "\ndef y(): ...\ndef z(): ...\n",
        "pkg/c.py": "from .a import *\n",
    }
    mods = ("pkg.b", "pkg.a", "pkg.c", "pkg")
    if sub == "sub":
        files.update(E_SUB)
        mods = ("pkg.b", "pkg.a", "pkg.c", "pkg.sub.m", "pkg.sub", "pkg.sub.n", "pkg")
    return files, mods


def _plausible(sel):
    """Static well-formedness pruning (CPython would reject these outright); the residual rejection rate is still measured."""
    bound_b = False
    has_all = False
    for s in sel:
        if s in ("all+b", "all*b") and not bound_b:
            return False
        if s == "all+=b" and not (bound_b and has_all):
            return False
        if s in ("all=all+y", "all=[*all,_p]") and not has_all:
            return False
        if s == "from-dot-b":
            bound_b = True
        if s.startswith("all"):
            has_all = True
    return True


def shards(tier):
    return list(range(NSHARDS))


def _text(labels, modname, menu):
    d = dict(menu)
    return PRE + "\n".join(d[l].replace("{M}", modname) for l in labels) + "\n"


def files_for(case):
    sel, bv, init = case
    if init.startswith("sub:"):
        return {
            "vmod.py": "class V:\n    def __init__(self, origin):\n        self.origin = origin\n",
            "pkg/__init__.py": PRE + dict(S_INITS)[init] + "\n",
            "pkg/top.py": PRE + S_TOP,
            "pkg/sub/__init__.py": _text(sel, "pkg.sub", S_MENU),
            "pkg/sub/m.py": PRE + S_MODS[bv] + "\n",
        }
    inits = dict(INIT_MENU + INIT_MENU_EXTRA + UP_INITS)
    return {
        "vmod.py": "class V:\n    def __init__(self, origin):\n        self.origin = origin\n",
        "pkg/__init__.py": PRE + inits[init] + "\n",
        "pkg/a.py": _text(sel, "pkg.a", A_MENU + UP_MENU),
        "pkg/b.py": _text(B_VARIANTS[bv], "pkg.b", A_MENU),
    }


def _origin(obj):
    if isinstance(obj, types.ModuleType):
        return obj.__name__
    if isinstance(obj, (types.FunctionType, type)):
        return f"{obj.__module__}.{obj.__qualname__}"
    o = getattr(obj, "origin", None)
    if o:
        return o.replace(":", ".")
    return "VALUE:" + repr(obj)


MODS_FLAT = ("pkg", "pkg.b", "pkg.a")
MODS_SUB = ("pkg", "pkg.top", "pkg.sub", "pkg.sub.m")


def cpython_view(root, modnames=MODS_FLAT):
    """-> {module: ({name: origin}, __all__ or None)} or ('REJECT', exc)"""
    with sandbox.interpreter_state():
        sys.path.insert(0, root)
        importlib.invalidate_caches()
        try:
            mods = {}
            for name in modnames:
                mods[name] = importlib.import_module(name)
            out = {}
            for name, mod in mods.items():
                ns = {}
                for k, v in vars(mod).items():
                    if (k.startswith("__") and k.endswith("__")) or k in ("V", "TYPE_CHECKING"):
                        continue
                    ns[k] = _origin(v)
                out[name] = (ns, list(mod.__all__) if hasattr(mod, "__all__") else None)
            return out
        except Exception as e:  # noqa: BLE001
            return ("REJECT", type(e).__name__)
        finally:
            for k in [k for k in sys.modules if k == "pkg" or k.startswith("pkg.") or k == "vmod"]:
                del sys.modules[k]


def griffe_view(griffe, root, modnames=MODS_FLAT, inspection=False):
    loader = griffe.GriffeLoader(search_paths=[root], allow_inspection=inspection, force_inspection=inspection)
    pkg = loader.load("pkg")
    loader.load("vmod")
    loader.resolve_aliases(implicit=True, external=False)
    out = {}
    proxies = []
    for name in modnames:
        mod = loader.modules_collection[name]
        ns = {}
        for k, m in mod.members.items():
            if (k.startswith("__") and k.endswith("__")) or k in ("V", "TYPE_CHECKING"):
                continue
            if m.runtime is False:
                continue  # only there for type checkers: not among the names CPython binds
            if m.is_alias:
                try:
                    ft = m.final_target
                    ns[k] = ft.path
                    proxies.append((m, ft))
                except Exception as e:  # noqa: BLE001
                    ns[k] = f"UNRESOLVED({m.target_path}):{type(e).__name__}"
            else:
                ns[k] = m.path
        exports = None if mod.exports is None else [str(e) for e in mod.exports]
        out[name] = (ns, exports)
    return out, proxies


def _pattern(case, module):
    sel, bv, init = case
    if init == "exp:":
        return f"exports[{','.join(sel)}]/{module}"
    if init == "deep:":
        return f"deep[{'all' if len(sel) > 1 else D_STMTS[sel[0]]}]/{module}"
    if init.startswith("sub:"):
        return {"pkg.sub": "subinit[" + ",".join(sel) + "]", "pkg.sub.m": bv, "pkg": init, "pkg.top": "top"}[module]
    if module == "pkg.a":
        return "a[" + ",".join(sel) + "]"
    if module == "pkg.b":
        return bv
    return f"init[{init}]/a[" + ",".join(s for s in sel if s.startswith(("all", "wild", "from", "import"))) + "]/" + bv


def run_case(griffe, acc, case):
    files = _files_exports(case)[0] if case[2] == "exp:" else _files_deep(case)[0] if case[2] == "deep:" else files_for(case)
    with sandbox.scratch_dir("c05") as d:
        sandbox.write_tree(d, files)
        is_sub = case[2].startswith("sub:")
        modnames = MODS_SUB if is_sub else MODS_FLAT
        if case[2] == "exp:":
            modnames = _files_exports(case)[1]
        if case[2] == "deep:":
            modnames = _files_deep(case)[1]
        exp = cpython_view(d, modnames)
        cd = {"case": [list(case[0]), case[1], case[2]], "files": {k: v for k, v in files.items() if k != "vmod.py"}}
        size = sum(len(v) for v in files.values())
        try:
            got, proxies = griffe_view(griffe, d, modnames)
        except Exception as e:  # noqa: BLE001
            import traceback

            tb = traceback.extract_tb(e.__traceback__)
            frame = next((f.name for f in reversed(tb) if "_griffe" in f.filename), tb[-1].name)
            rejected = isinstance(exp, tuple)
            acc.violation(f"raise/{type(e).__name__}@{frame}/{'cpython-rejects-too' if rejected else 'importable'}", f"load/resolve raised {e!r}", cd, None, size=size)
            acc.case(cd, outcome="raise")
            return
        if isinstance(exp, tuple):
            acc.case(cd, outcome="cpython-rejects:" + exp[1], nontrivial=False)
            acc.counters["cpython_rejected"] += 1
            return
        has_import = any(str(s).startswith(("wild", "from", "import", "abs")) for s in case[0]) or case[2] != "none"
        acc.case(cd, outcome="imported", nontrivial=has_import)
        acc.observe(got)
        for mod in (modnames if case[2] in ("exp:", "deep:") else ("pkg.top", "pkg", "pkg.sub.m", "pkg.sub") if is_sub else ("pkg.b", "pkg", "pkg.a") if case[2].startswith("up:") else ("pkg.b", "pkg.a", "pkg")):
            (ens, eall), (gns, gall) = exp[mod], got[mod]
            if is_sub and mod == "pkg.sub" and "up-star" in case[0]:
                # (see the U family: sub-module attributes copied by a star import of the parent are an artefact of import order)
                ens = {k: v for k, v in ens.items() if not (k in ("top", "sub") and v in MODS_SUB)}
                gns = {k: v for k, v in gns.items() if not (k in ("top", "sub") and v in MODS_SUB)}
            if case[2].startswith("up:") and mod == "pkg.a":
                # a star import of the parent also copies the sub-module attributes that happen to be bound on the package at that moment
                # (an artefact of import order, here of the harness importing pkg.b first): module-valued names are not judged
                ens = {k: v for k, v in ens.items() if v not in ("pkg.a", "pkg.b", "pkg")}
                gns = {k: v for k, v in gns.items() if v not in ("pkg.a", "pkg.b", "pkg")}
            # a problem in a module is usually inherited by its importers: report the deepest module only
            bad = False
            for n in sorted(set(ens) ^ set(gns)):
                what = "extra" if n in gns else "missing"
                shape = "private" if n.startswith("_") else "module" if n in ("a", "b", "pkg", "top", "sub", "m") else "public"
                acc.violation(f"names/{what}/{shape}/{_pattern(case, mod)}", f"{mod}: name {n!r} {what} (Griffe {sorted(gns)} vs CPython {sorted(ens)})", cd, {"got": gns, "expected": ens}, size=size)
                bad = True
            for n in sorted(set(ens) & set(gns)):
                if ens[n] != gns[n]:
                    acc.violation(f"origin/{_pattern(case, mod)}", f"{mod}.{n}: Griffe says it is {gns[n]}, CPython {ens[n]}", cd, {"got": gns, "expected": ens}, size=size)
                    bad = True
            if eall is not None and (gall is None or sorted(set(gall)) != sorted(set(eall))):  # duplicates in __all__ carry no meaning
                acc.violation(f"exports/{_pattern(case, mod)}", f"{mod}.__all__: Griffe {gall}, CPython {eall}", cd, None, size=size)
                bad = True
            if bad:
                break
        if case[2] in ("exp:", "deep:"):
            # the same package seen by the other agent (runtime inspection): the names each module binds are the same ones
            try:
                with sandbox.interpreter_state():
                    dyn, _ = griffe_view(griffe, d, modnames, inspection=True)
                for mod in modnames:
                    ens, gns = exp[mod][0], dyn[mod][0]
                    if set(ens) != set(gns):
                        acc.violation(f"dynamic-agent/names/{_pattern(case, mod)}", f"{mod} inspected: names {sorted(gns)} vs CPython {sorted(ens)}", cd, None, size=size)
                        break
            except Exception as e:  # noqa: BLE001
                acc.violation(f"dynamic-agent/raise/{type(e).__name__}", f"inspection raised {e!r}", cd, None, size=size)
        for alias, target in proxies:
            try:
                probs = []
                if alias.kind is not target.kind:
                    probs.append("kind")
                if (alias.docstring.value if alias.docstring else None) != (target.docstring.value if target.docstring else None):
                    probs.append("docstring")
                if alias.labels != target.labels:
                    probs.append("labels")
                if target.is_function and [p.name for p in alias.parameters] != [p.name for p in target.parameters]:
                    probs.append("parameters")
                if target.is_class:
                    for n, m in alias.members.items():
                        if m.path != f"{alias.path}.{n}":
                            probs.append("member-path")
                    if set(alias.members) != set(target.members):
                        probs.append("member-names")
                for pb in probs:
                    acc.violation(f"proxy/{pb}/{target.kind.value}", f"alias {alias.path} -> {target.path}: {pb} differs from the target's", cd, None, size=size)
            except Exception as e:  # noqa: BLE001
                acc.violation(f"proxy/raise/{type(e).__name__}", f"alias {alias.path}: {e!r}", cd, None, size=size)


def run_shard(shard, tier):
    boot.boot()
    import griffe

    acc = Acc()
    for idx, case in enumerate(all_cases(tier)):
        if idx % NSHARDS != shard:
            continue
        try:
            run_case(griffe, acc, case)
        except Exception as e:  # noqa: BLE001
            import traceback

            acc.violation(f"harness-error/{type(e).__name__}", repr(e), {"case": [list(case[0]), case[1], case[2]]}, {"tb": traceback.format_exc()[-900:]})
    return acc.result()


def replay(case):
    boot.boot()
    import griffe

    acc = Acc()
    c = case["case"]
    run_case(griffe, acc, (tuple(c[0]), c[1], c[2]))
    return [(k, v["summary"], v["detail"]) for k, v in acc.violations.items()]
