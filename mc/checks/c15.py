"""C15 — Static loading never executes analysed code; interpreter state is restored.  (E3, fault enumeration)

A  every module of every generated package starts with a statement that creates a sentinel file named after the module.
   Shapes: flat package, nested sub-packages, stubs beside sources, a compiled-module file name, a module with a syntax error,
   wildcard imports from a second on-disk package and from its `_private` sibling (the external=None rule), an import of a
   missing dependency, a namespace package, a single module, a __main__ that exits.  ALL combinations of the loader options
   that do not enable inspection (submodules, try_relative_path, find_stubs_package, store_source, resolve_aliases,
   resolve_implicit, resolve_external in {None, False, True}) through the API, and the `dump -X` CLI.
   Oracle: no sentinel exists, sys.modules gained nothing from the package, compiled modules are absent from the tree,
   sys.path is the same list object with the same contents, only ModuleNotFoundError / LoadingError may escape.
B  fault placement with inspection allowed / forced: for every module position in import order, that module's body raises
   Exception, raises ImportError for a missing dependency, calls sys.exit(), or raises KeyboardInterrupt; quick: every single fault and every pair,
   thorough: every triple.  Oracle: sys.path restored (identity and contents), and whatever escapes is of the
   ImportError / LoadingError family (never SystemExit / KeyboardInterrupt / the raw exception).
"""
from __future__ import annotations

import itertools
import os
import sys

from mc.core import boot, sandbox
from mc.core.driver import Acc

PROPERTY = "C15"
LEVEL = "fault_enumeration"
NSHARDS = 32
RULE = (
    "A: shapes x all non-inspecting option vectors (+ CLI); B: all fault placements (position x kind) up to the fault bound x {allow, force} inspection; "
    "non-trivial = the package has >= 2 modules with import-time side effects; distinct by construction"
)
ASSUMPTIONS = ["import-time side effects are represented by creating a sentinel file (any executed module body would create one)",
               "a crash of the Python process itself is out of scope; 'interruption' is KeyboardInterrupt / SystemExit raised by the imported code"]
MANIFEST = {
    "category": "fault_enumeration",
    "text": "Exhaustive enumeration of (package shape x every loader option vector that excludes inspection x API/CLI) with sentinel-based detection of any execution, and of every placement of a fault (8 kinds: import-time exception / missing dependency / exit / interrupt, sys.path re-bound or mutated by the imported code, exit and missing dependency raised lazily while members are walked; x every module position, pairs in quick, triples in thorough; explicit and default search paths), plus the inspection agent called directly and a loader reused after its inspection switches were turned off under allowed/forced inspection, checking sys.modules, sys.path identity and contents, and the escaping exception family on the real loader/importer. Shapes include folders without __init__ inside a regular package.",
    "note": "Complete for the 10 shapes, the 192 option vectors and the fault placements stated; process crashes are out of scope.",
    "technique": "fault enumeration: exhaustive option vectors and fault placements (deviation-bounded) on the real loader and importer with sentinel/side-effect oracles",
}

SO = "ext.cpython-312-x86_64-linux-gnu.so"


def S(mod):
    return f"open(__import__('os').path.join(__SENTINEL_DIR__, 'ran_{mod}'), 'w').close()\n"


SHAPES = {
    "flat": {"pkg/__init__.py": S("pkg") + "x = 1\n", "pkg/mod.py": S("pkg.mod") + "def f(): ...\n"},
    "nested": {"pkg/__init__.py": S("pkg") + "from pkg.sub import leaf\n", "pkg/sub/__init__.py": S("pkg.sub") + "from .leaf import *\n", "pkg/sub/leaf.py": S("pkg.sub.leaf") + "class L: ...\n",
               "pkg/sub/deep/__init__.py": S("pkg.sub.deep"), "pkg/sub/deep/core.py": S("pkg.sub.deep.core") + "v = 1\n"},
    "stubs": {"pkg/__init__.py": S("pkg"), "pkg/__init__.pyi": S("pkg-pyi") + "y: int\n", "pkg/mod.py": S("pkg.mod") + "def f(a): ...\n", "pkg/mod.pyi": S("pkg.mod-pyi") + "def f(a: int) -> int: ...\n",
              "pkg-stubs/__init__.pyi": S("pkg-stubs"), "pkg-stubs/mod.pyi": S("pkg-stubs.mod") + "def f(a: str) -> str: ...\n"},
    "compiled": {"pkg/__init__.py": S("pkg") + "from pkg import ext\n", f"pkg/{SO}": "", "pkg/mod.py": S("pkg.mod")},
    "syntax-error": {"pkg/__init__.py": S("pkg"), "pkg/bad.py": S("pkg.bad") + "def broken(:\n", "pkg/good.py": S("pkg.good") + "g = 1\n"},
    "wildcard-external": {"pkg/__init__.py": S("pkg") + "from other import *\nfrom _pkg import *\nfrom other.inner import thing\n", "other/__init__.py": S("other") + "def o(): ...\n",
                          "other/inner.py": S("other.inner") + "thing = 1\n", "_pkg/__init__.py": S("_pkg") + "def p(): ...\n"},
    "missing-dependency": {"pkg/__init__.py": S("pkg") + "import not_installed_anywhere\nfrom not_installed_anywhere.sub import *\n", "pkg/mod.py": S("pkg.mod") + "from not_installed_anywhere import z\n"},
    "namespace": {"pkg/one.py": S("pkg.one") + "a = 1\n", "pkg/inner/__init__.py": S("pkg.inner"), "pkg/inner/two.py": S("pkg.inner.two") + "b = 2\n"},
    # a folder without __init__ inside a regular package, three and four levels down (whether Python could import it is not for a static load to try out)
    "initless-folder": {"pkg/__init__.py": S("pkg") + "x = 1\n", "pkg/scripts/leaf.py": S("pkg.scripts.leaf") + "v = 1\n", "pkg/scripts/deeper/tool.py": S("pkg.scripts.deeper.tool") + "w = 1\n",
                        "pkg/sub/__init__.py": S("pkg.sub"), "pkg/sub/data/mod.py": S("pkg.sub.data.mod") + "u = 1\n"},
    "single-module": {"pkg.py": S("pkg") + "import sys\nsys.path.append('/nonexistent-added-by-analysed-code')\n"},
    # modules Python can import but a source finder cannot see: a sourceless (byte-code only) dependency, and a sourceless top-level target
    "sourceless-dependency": {"pkg/__init__.py": S("pkg") + "from legacy import x\nfrom legacy import *\nimport legacy2\n", "legacy.pyc": S("legacy") + "x = 1\n", "legacy2.pyc": S("legacy2") + "y = 2\n"},
    "sourceless-target": {"pkg.pyc": S("pkg") + "x = 1\n"},
    "main-exits": {"pkg/__init__.py": S("pkg"), "pkg/__main__.py": S("pkg.__main__") + "import sys\nsys.exit(3)\n"},
}
BOOL_OPTS = ["submodules", "try_relative_path", "find_stubs_package", "store_source", "resolve_aliases", "resolve_implicit"]
EXTERNAL = [None, False, True]
FAULTS = ["raise Exception('boom')", "import surely_missing_dependency_xyz", "import sys; sys.exit(7)", "raise KeyboardInterrupt()",
          # not failures, but the imported code tampering with the very state that has to be restored (the import goes on)
          "import sys; sys.path = ['/rebound-by-analysed-code'] + sys.path", "import sys; sys.path.insert(0, '/inserted-by-analysed-code')",
          # the same outcomes, but LATER: not while the module is imported, while its members are walked (PEP 562 module __getattr__ / __dir__, as lazily importing packages do)
          "def __getattr__(name):\n    if name == 'lazy_attr':\n        import sys\n        sys.exit(3)\n    raise AttributeError(name)\ndef __dir__():\n    return [*globals(), 'lazy_attr']",
          "def __getattr__(name):\n    if name == 'lazy_attr':\n        import surely_missing_dependency_xyz\n    raise AttributeError(name)\ndef __dir__():\n    return [*globals(), 'lazy_attr']"]
FAULT_NAMES = ["exception", "missing-dependency", "sys-exit", "keyboard-interrupt", "rebinds-sys-path", "mutates-sys-path", "lazy-sys-exit", "lazy-missing-dependency"]
FPKG = ["fp/__init__.py", "fp/a.py", "fp/sub/__init__.py", "fp/sub/b.py"]
FMOD = ["fp", "fp.a", "fp.sub", "fp.sub.b"]


def bounds(tier):
    return {"shapes": list(SHAPES), "option_vectors": 2 ** len(BOOL_OPTS) * len(EXTERNAL), "fault_kinds": FAULT_NAMES, "fault_positions": FMOD, "max_faults": 2 if tier == "quick" else 3}


def all_cases(tier):
    for shape in SHAPES:
        for bits in itertools.product((True, False), repeat=len(BOOL_OPTS)):
            for ext in EXTERNAL:
                yield ("A", shape, bits, ext)
        for full in (False, True):
            for resolve in (False, True):
                yield ("CLI", shape, full, resolve)
    # I: the inspection agent called directly (griffe.inspect with and without import paths), one module, every fault kind: the import path is restored
    for kd in [None, *range(len(FAULTS))]:
        for how in ("inspect-no-import-paths", "inspect-with-import-paths", "temporary-inspected-module"):
            yield ("I", kd, how)
    # R: a loader REUSED after its inspection switches were turned off: what it loads afterwards is loaded statically only
    for shape in ("sourceless-target", "sourceless-dependency"):
        for how in ("allow_inspection=False", "both-False"):
            yield ("R", shape, how)
    nf = 2 if tier == "quick" else 3
    for k in range(0, nf + 1):
        for positions in itertools.combinations(range(len(FMOD)), k):
            for kinds in itertools.product(range(len(FAULTS)), repeat=k):
                for mode in ("allow", "force"):
                    for target in ("fp", "fp.sub.b"):
                        yield ("B", tuple(zip(positions, kinds)), mode, target)
                        if k <= 1 or all(kd in (4, 5) for kd in kinds):
                            # the loader's DEFAULT search paths (a copy of sys.path, which holds the project directory) instead of explicit ones
                            yield ("B", tuple(zip(positions, kinds)), mode, target, "default-search-paths")


def shards(tier):
    return list(range(NSHARDS))


def sandbox_suppress():
    import contextlib

    return contextlib.suppress(ValueError)


def _snapshot():
    return sys.path, list(sys.path), set(sys.modules)


def _judge_state(acc, cd, before, root, pkg_names, size, ctx, allow_modules=False):
    path_obj, path_copy, mods = before
    if sys.path is not path_obj:
        acc.violation(f"syspath/replaced/{ctx}", "sys.path is a different list object after the call", cd, None, size=size)
    elif list(sys.path) != path_copy:
        acc.violation(f"syspath/contents/{ctx}", f"sys.path contents changed: {[p for p in sys.path if p not in path_copy]} added, {[p for p in path_copy if p not in sys.path]} removed", cd, None, size=size)
    new = {m for m in set(sys.modules) - mods if m.split(".")[0] in pkg_names}
    if new and not allow_modules:
        acc.violation(f"sysmodules/{ctx}", f"modules entered sys.modules during a load without inspection: {sorted(new)}", cd, None, size=size)
    ran = sorted(f for f in os.listdir(root) if f.startswith("ran_"))
    if ran and not allow_modules:
        acc.violation(f"executed/{ctx}", f"analysed code was executed (sentinels: {ran})", cd, None, size=size)
    return ran


def run_case(griffe, acc, case):
    kind = case[0]
    with sandbox.scratch_dir("c15") as d, sandbox.interpreter_state():
        sroot = os.path.join(d, "sentinels")
        os.makedirs(sroot)
        if kind in ("A", "CLI"):
            shape = case[1]
            files = {k: v.replace("__SENTINEL_DIR__", repr(sroot)) for k, v in SHAPES[shape].items()}
            sandbox.write_tree(os.path.join(d, "src"), {k: v for k, v in files.items() if not k.endswith(".pyc")})
            src = os.path.join(d, "src")
            for rel, text in files.items():
                if rel.endswith(".pyc"):
                    import py_compile

                    tmp_src = os.path.join(d, "tmp_" + os.path.basename(rel)[:-1])
                    with open(tmp_src, "w") as f:
                        f.write(text)
                    os.makedirs(os.path.dirname(os.path.join(src, rel)), exist_ok=True)
                    py_compile.compile(tmp_src, cfile=os.path.join(src, rel), doraise=True)
                    os.remove(tmp_src)
            names = {"pkg", "other", "_pkg", "pkg-stubs", "legacy", "legacy2"}
            before = _snapshot()
            cwd = os.getcwd()
            os.chdir(d)
            try:
                if kind == "A":
                    _, _, bits, ext = case
                    opts = dict(zip(BOOL_OPTS, bits))
                    cd = {"case": ["A", shape, list(bits), ext]}
                    ctx = f"{shape}"
                    outcome = "ok"
                    try:
                        pkg = griffe.load("pkg", search_paths=[src], allow_inspection=False, resolve_external=ext, **opts)
                        # compiled modules must not be in the tree
                        if shape == "compiled" and "ext" in pkg.members and not pkg.members["ext"].is_alias:
                            acc.violation("compiled-in-tree", "the compiled module pkg.ext appears in the tree of a load without inspection", cd, None, size=1)
                    except (ImportError, griffe.LoadingError) as e:
                        outcome = "refused:" + type(e).__name__
                    except Exception as e:  # noqa: BLE001
                        import traceback

                        tb = traceback.extract_tb(e.__traceback__)
                        frame = next((f.name for f in reversed(tb) if "_griffe" in f.filename), tb[-1].name)
                        minimal = "+".join(k for k, v in opts.items() if v != {"submodules": True, "try_relative_path": True}.get(k, False)) or "defaults"
                        acc.violation(f"exctype/{type(e).__name__}@{frame}/{shape}", f"load(allow_inspection=False, {opts}, resolve_external={ext}) raised {e!r}", cd, None, size=sum(bits) + 1)
                        outcome = "raise"
                    ran = _judge_state(acc, cd, before, sroot, names, sum(1 for b in bits if b) + 1, ctx)
                    acc.case(cd, outcome=f"{shape}:{outcome}", nontrivial=len(files) >= 2)
                    acc.observe([outcome, ran])
                else:
                    from _griffe import cli

                    _, _, full, resolve = case
                    cd = {"case": ["CLI", shape, full, resolve]}
                    out = os.path.join(d, "out.json")
                    args = ["dump", "pkg", "-X", "-s", src, "-o", out] + (["-f"] if full else []) + (["-r", "-I"] if resolve else [])
                    try:
                        rc = cli.main(args)
                        outcome = f"rc{rc}"
                    except SystemExit as e:
                        outcome = f"SystemExit{e.code}"
                    except Exception as e:  # noqa: BLE001
                        outcome = "raise:" + type(e).__name__
                        if not isinstance(e, (ImportError, griffe.LoadingError)):
                            acc.violation(f"cli-exctype/{type(e).__name__}/{shape}", f"griffe {' '.join(args[:3])} raised {e!r}", cd, None, size=2)
                    ran = _judge_state(acc, cd, before, sroot, names, 2, f"cli/{shape}")
                    acc.case(cd, outcome=f"cli/{shape}:{outcome}", nontrivial=len(files) >= 2)
                    acc.observe([outcome, ran])
            finally:
                os.chdir(cwd)
        elif kind == "I":
            _, kd, how = case
            from pathlib import Path

            src = os.path.join(d, "src")
            body = S("imod").replace("__SENTINEL_DIR__", repr(sroot)) + (FAULTS[kd] + "\n" if kd is not None else "") + "def f(a): ...\n"
            sandbox.write_tree(src, {"imod.py": body})
            cd = {"case": ["I", kd, how]}
            before = _snapshot()
            outcome = "ok"
            try:
                if how == "inspect-no-import-paths":
                    griffe.inspect("imod", filepath=Path(src) / "imod.py")
                elif how == "inspect-with-import-paths":
                    griffe.inspect("imod", filepath=Path(src) / "imod.py", import_paths=[src])
                else:
                    with griffe.temporary_inspected_module("def g(): ...\n" + (FAULTS[kd] if kd is not None and kd not in (2, 3) else "")):
                        pass
            except (ImportError, griffe.LoadingError) as e:
                outcome = "refused:" + type(e).__name__
            except BaseException as e:  # noqa: BLE001
                outcome = "escaped:" + type(e).__name__
            ctx = f"{how}/{FAULT_NAMES[kd] if kd is not None else 'no-fault'}"
            _judge_state(acc, cd, before, sroot, {"imod"}, 1, "direct/" + ctx, allow_modules=True)
            acc.case(cd, outcome=f"direct/{how}:{outcome}", nontrivial=True)
            acc.observe(outcome)
        elif kind == "R":
            _, shape, how = case
            files = {k: v.replace("__SENTINEL_DIR__", repr(sroot)) for k, v in SHAPES[shape].items()}
            files["plain/__init__.py"] = "x = 1\n"
            src = os.path.join(d, "src")
            sandbox.write_tree(src, {k: v for k, v in files.items() if not k.endswith(".pyc")})
            for rel, text in files.items():
                if rel.endswith(".pyc"):
                    import py_compile

                    tmp_src = os.path.join(d, "tmp_" + os.path.basename(rel)[:-1])
                    with open(tmp_src, "w") as f:
                        f.write(text)
                    py_compile.compile(tmp_src, cfile=os.path.join(src, rel), doraise=True)
            cd = {"case": ["R", shape, how]}
            before = _snapshot()
            outcome = "ok"
            try:
                loader = griffe.GriffeLoader(search_paths=[src])
                loader.load("plain")
                loader.allow_inspection = False
                if how == "both-False":
                    loader.force_inspection = False
                loader.load("pkg")
                loader.resolve_aliases(implicit=True, external=True)
            except (ImportError, griffe.LoadingError) as e:
                outcome = "refused:" + type(e).__name__
            except BaseException as e:  # noqa: BLE001
                outcome = "escaped:" + type(e).__name__
            names = {"pkg", "legacy", "legacy2"}
            _judge_state(acc, cd, before, sroot, names, 2, f"reused-loader/{shape}/{how}")
            acc.case(cd, outcome=f"reused/{shape}:{outcome}", nontrivial=True)
            acc.observe(outcome)
        else:
            _, faults, mode, target = case[:4]
            default_paths = len(case) > 4
            fd = dict(faults)
            files = {}
            for i, rel in enumerate(FPKG):
                body = S(FMOD[i]).replace("__SENTINEL_DIR__", repr(sroot))
                if i == 0:
                    body += "from fp import a\nfrom fp import sub\n"
                if i == 2:
                    body += "from fp.sub import b\n"
                if i in fd:
                    body = S(FMOD[i]).replace("__SENTINEL_DIR__", repr(sroot)) + FAULTS[fd[i]] + "\n" + body
                files[rel] = body + f"v{i} = {i}\n"
            src = os.path.join(d, "src")
            sandbox.write_tree(src, files)
            cd = {"case": ["B", [list(f) for f in faults], mode, target] + (["default-search-paths"] if default_paths else [])}
            if default_paths:
                sys.path.insert(0, src)
            before = _snapshot()
            ctx = "+".join(f"{FAULT_NAMES[k]}@{'top' if p == 0 else 'submodule' if p in (1, 3) else 'subpackage'}" for p, k in faults) or "no-fault"
            if default_paths:
                ctx += "/default-search-paths"
            outcome = "ok"
            try:
                if default_paths:
                    griffe.load(target, allow_inspection=True, force_inspection=(mode == "force"), try_relative_path=False)
                else:
                    griffe.load(target, search_paths=[src], allow_inspection=True, force_inspection=(mode == "force"))
            except (ImportError, griffe.LoadingError) as e:
                outcome = "refused:" + type(e).__name__
            except KeyError as e:
                # the requested module was skipped (its inspection failed after a successful import): the lookup of the requested object fails.
                # Not an import-path matter, and not the analysed code's own exception: accepted as a refusal.
                outcome = "refused:KeyError"
            except BaseException as e:  # noqa: BLE001
                outcome = "escaped:" + type(e).__name__
                acc.violation(f"exctype/{type(e).__name__}/{mode}/{ctx}", f"load({target!r}, {mode} inspection) let {type(e).__name__} escape ({e!r})", cd, None, size=len(faults) + 1)
            _judge_state(acc, cd, before, sroot, {"fp"}, len(faults) + 1, f"{mode}/{ctx}", allow_modules=True)
            if default_paths:
                with sandbox_suppress():
                    sys.path.remove(src)
            acc.case(cd, outcome=f"fault/{mode}:{outcome}", nontrivial=True)
            acc.observe(outcome)


def run_shard(shard, tier):
    boot.boot()
    import griffe

    acc = Acc()
    for idx, case in enumerate(all_cases(tier)):
        if idx % NSHARDS != shard:
            continue
        try:
            run_case(griffe, acc, case)
        except Exception as e:  # noqa: BLE001
            import traceback

            acc.violation(f"harness-error/{type(e).__name__}", repr(e), {"case": str(case)}, {"tb": traceback.format_exc()[-900:]})
    return acc.result()


def _detuple(x):
    return tuple(_detuple(i) for i in x) if isinstance(x, list) else x


def replay(case):
    boot.boot()
    import griffe

    acc = Acc()
    run_case(griffe, acc, _detuple(case["case"]))
    return [(k, v["summary"], v["detail"]) for k, v in acc.violations.items()]
