"""C14 — Module discovery matches the import system, independent of listing order.  (E3, model checking over listing schedules)

Layouts: every subset of <= 3 (quick) / 4 (thorough) entries from a 17-entry alphabet for the top name `p`
(p/__init__.py, p.py, namespace portion, stubs in three placements, p/m.py, p/m.pyi, fake extension module, p/m/__init__.py,
sub-package, dir without __init__, __pycache__, data file, dotted file name, pkgutil-style namespace __init__, .pth file),
each entry placed in search path s1 or s2.
Schedules: `os.walk` and `Path.iterdir` as seen from _griffe.finder are owned by the harness; each directory listing is a
choice point; explored: the sorted schedule, then every schedule in which ONE directory is listed in another order (all its
permutations; thorough: any TWO directories), plus the request-by-path form where it denotes the same package.
Oracle 1 (order independence): the minimal JSON with sorted keys (the canonical form `griffe dump` emits) is identical on
every schedule and for both request forms.
Oracle 2 (agreement with CPython, nothing executed): a reference walker built from importlib.machinery.PathFinder.find_spec
and pkgutil.iter_modules lists {dotted name: origin, is_pkg, namespace}; every module Griffe loads from a .py file is importable
at that name from that file, every source module CPython finds is loaded at the same dotted path, and the package /
sub-package / namespace classification agrees.
"""
from __future__ import annotations

import importlib
import importlib.machinery
import itertools
import json
import os
import pkgutil
from pathlib import Path

from mc.core import boot, listing, sandbox
from mc.core.driver import Acc

PROPERTY = "C14"
LEVEL = "model_checking"
NSHARDS = 64
RULE = (
    "all layouts (entry subsets x search-path placement) x all listing schedules within the deviation bound; a state is one (layout, schedule) execution of the real "
    "finder+loader; transitions = directory listings answered by the harness; non-trivial layouts have >= 2 entries"
)
ASSUMPTIONS = ["CPython 3.12 PathFinder/FileFinder + pkgutil.iter_modules define 'what the import system finds' (no module code is executed on either side)",
               "compiled-extension entries are empty files with an extension-module file name: only naming and precedence are exercised",
               "key order inside `members` is not part of 'the resulting tree' (the CLI sorts keys)"]
MANIFEST = {
    "category": "model_checking",
    "text": "Stateless exploration of directory-listing schedules (every permutation of one directory at a time in quick, two in thorough) over all small file layouts (<= 3 / 5 entries from a 22-entry alphabet; layouts with a stubs distribution also under find_stubs_package=True) on two search paths, on the real finder and loader with os.walk / Path.iterdir intercepted; canonical JSON must be schedule- and request-form-independent and the loaded module set must agree with a PathFinder/pkgutil reference walker. Entries include symbolic links (a second name for a sub-package directory, for a module file); family PTH adds directories through .pth lines (absolute, through a link, relative, with ..) and requests the packages by name and by the path of every portion, against site.addsitedir's order. Family T3 places entries (regular, pkgutil-style and PEP 420 portions, a sub-package) on three search paths and requests the package by name and by the path of each portion.",
    "note": "Bounded by layout size (<=3 entries with two permuted directories in both tiers; thorough adds <=4 entries with one permuted directory) and deviation bound (1 / 2 permuted directories); listing order is the only nondeterminism and it is fully owned by the harness.",
    "technique": "stateless model checking over directory-listing schedules (choice-point DFS with deviation bounding) on the real finder/loader, CPython PathFinder walker as oracle",
}

SO = "m.cpython-312-x86_64-linux-gnu.so"
ENTRIES = {
    "init": ("p/__init__.py", "x = 1\n"), "p.py": ("p.py", "x = 2\n"), "ns-portion": ("p/nsmod.py", "x = 3\n"), "init.pyi": ("p/__init__.pyi", "x: int\n"), "p.pyi": ("p.pyi", "x: int\n"),
    "p-stubs": ("p-stubs/__init__.pyi", "x: int\n"), "m.py": ("p/m.py", "y = 1\n"), "m.pyi": ("p/m.pyi", "y: int\n"), "m.so": (f"p/{SO}", ""), "m/init": ("p/m/__init__.py", "y = 2\n"),
    "sub/init": ("p/sub/__init__.py", "z = 1\n"), "sub/n": ("p/sub/n.py", "w = 1\n"), "ns/k": ("p/ns/k.py", "v = 1\n"), "pycache": ("p/__pycache__/m.cpython-312.pyc", ""),
    "data": ("p/data.txt", "hello\n"), "dotted": ("p/a.b.py", "u = 1\n"), "pkgutil-ns": ("p/__init__.py", "__path__ = __import__('pkgutil').extend_path(__path__, __name__)\n"),
    "pkgutil-ns-2line": ("p/__init__.py", "from pkgutil import extend_path\n__path__ = extend_path(__path__, __name__)\n"),
    # a regular package two levels down, below a namespace sub-package, with a stub for its __init__
    "p-stubs-initless": ("p-stubs/m.pyi", "y: int\n"),  # a stubs distribution without __init__.pyi (a namespace-like stubs package)
    # symbolic links: a second name for the sub-package directory (two names, one real directory: both are packages for the import system), a second name for a module file
    "sub-link": ("p/compat", "SYMLINK->sub"), "m-link": ("p/mlink.py", "SYMLINK->m.py"),
    "ns/pk/init": ("p/ns/pk/__init__.py", "t = 1\n"), "ns/pk/init.pyi": ("p/ns/pk/__init__.pyi", "t: int\n"), "ns/pk/mod": ("p/ns/pk/mod.py", "s = 1\n"),
}
NAMES = list(ENTRIES)
# (max entries, permuted directories per schedule); passes are run one after the other
# (thorough was (5, 1) + (4, 2) over a 17-entry alphabet; with 24 entries and larger directories that no longer ends in reasonable time: the passes below do)
_PLAN = {"quick": [(3, 2)], "thorough": [(4, 1), (3, 2)]}


def bounds(tier):
    return {"entry_alphabet": NAMES, "passes": [{"max_entries": e, "permuted_directories_per_schedule": d} for e, d in _PLAN[tier]], "search_paths": ["s1", "s2"]}


CORE_ENTRIES = tuple(NAMES[:12])


def layouts(maxe):
    for k in range(1, maxe + 1):
        for combo in itertools.combinations(range(len(NAMES)), k):
            names = [NAMES[i] for i in combo]
            if k >= 5 and any(n not in CORE_ENTRIES for n in names):
                continue  # (the five-entry pass runs over the first 12 entries; all entries take part in layouts of up to four entries)
            if "init" in names and "pkgutil-ns" in names:
                pass  # same file name: only possible on different search paths (handled below)
            for places in itertools.product((1, 2), repeat=k):
                files = {}
                clash = False
                for n, pl in zip(names, places):
                    rel = f"s{pl}/" + ENTRIES[n][0]
                    if rel in files:
                        clash = True
                        break
                    files[rel] = ENTRIES[n][1]
                if clash:
                    continue
                yield tuple(zip(names, places))


def shards(tier):
    return list(range(NSHARDS))


def files_of(layout):
    return {f"s{pl}/" + ENTRIES[n][0]: ENTRIES[n][1] for n, pl in layout}


def cpython_walk(root, paths=None, top="p"):
    paths = paths or [os.path.join(root, "s1"), os.path.join(root, "s2")]
    importlib.invalidate_caches()
    out = {}

    def add(fullname, search):
        try:
            spec = importlib.machinery.PathFinder.find_spec(fullname, search)
        except KeyError:
            # a PEP 420 portion below the top level: PathFinder wants the parent in sys.modules (we import nothing);
            # a namespace sub-package is simply every directory of that name, without __init__.py, on the parent's path
            tail = fullname.rsplit(".", 1)[1]
            dirs = [os.path.join(loc, tail) for loc in search if os.path.isdir(os.path.join(loc, tail))]
            spec = importlib.machinery.ModuleSpec(fullname, None, is_package=True)
            spec.submodule_search_locations = dirs
        if spec is None:
            return
        locs = list(spec.submodule_search_locations) if spec.submodule_search_locations is not None else None
        pkgutil_style = False
        if locs and "." not in fullname and spec.origin and spec.origin.endswith("__init__.py") and "extend_path" in open(spec.origin).read():
            # a pkgutil-style namespace package: CPython's own pkgutil.extend_path computes __path__ (it imports nothing; it scans sys.path)
            import sys

            saved = sys.path
            sys.path = list(search)
            try:
                locs = list(pkgutil.extend_path(locs, fullname))
            finally:
                sys.path = saved
            pkgutil_style = True
        out[fullname] = {"origin": spec.origin, "is_pkg": locs is not None, "namespace": locs is not None and spec.origin is None, "locations": locs, "pkgutil": pkgutil_style}
        if locs:
            for info in pkgutil.iter_modules(locs, fullname + "."):
                add(info.name, locs)
            # pkgutil does not report PEP 420 portions nested in a package: look for them explicitly
            for loc in locs:
                try:
                    subs = sorted(os.listdir(loc))
                except OSError:
                    continue
                for sname in subs:
                    full = f"{fullname}.{sname}"
                    if full not in out and sname.isidentifier() and os.path.isdir(os.path.join(loc, sname)) and sname != "__pycache__":
                        add(full, locs)

    add(top, paths)
    return out


def griffe_load(griffe, root, order, by_path=None, stubs=False):
    paths = [os.path.join(root, "s1"), os.path.join(root, "s2")]
    with listing.Listing(order) as lst:
        loader = griffe.GriffeLoader(search_paths=paths, allow_inspection=False)
        if by_path:
            mod = loader.load(by_path, try_relative_path=True, find_stubs_package=stubs)
        else:
            mod = loader.load("p", try_relative_path=False, find_stubs_package=stubs)
    return mod, lst.points


def tree_of(mod, root):
    out = {}

    def rec(m):
        try:
            fp = m.filepath
        except Exception as e:  # noqa: BLE001
            fp = "ERR:" + type(e).__name__
        out[m.path] = {
            "filepath": [str(p) for p in fp] if isinstance(fp, list) else str(fp),
            "is_package": m.is_package, "is_subpackage": m.is_subpackage, "is_namespace_package": m.is_namespace_package, "is_namespace_subpackage": m.is_namespace_subpackage,
        }
        for sub in m.members.values():
            if not sub.is_alias and sub.is_module:
                rec(sub)

    rec(mod)
    return out


def canon_json(mod, root):
    return json.dumps(json.loads(mod.as_json(full=False)), sort_keys=True).replace(root, "<root>")


def schedules(points, dev):
    """From the choice points of the sorted run: all schedules with <= dev directories listed in a non-sorted order."""
    dirs = {}
    for d, what, names in points:
        if len(names) >= 2:
            dirs[(d, what)] = names
    keys = sorted(dirs)
    for k in range(1, dev + 1):
        for chosen in itertools.combinations(keys, k):
            perm_sets = [[p for p in itertools.permutations(dirs[c]) if list(p) != sorted(dirs[c])] for c in chosen]
            for perms in itertools.product(*perm_sets):
                yield dict(zip(chosen, perms))


def features(layout):
    """Layout features that known divergences depend on; part of every oracle-2 key so that a plain layout never shares a key with them."""
    by_path = {1: set(), 2: set()}
    for n, pl in layout:
        by_path[pl].add(n)
    f = []
    if any(("init.pyi" in s and "init" not in s) or ("ns/pk/init.pyi" in s and "ns/pk/init" not in s) for s in by_path.values()):
        f.append("stub-only-package-dir")  # (at the top, or two levels down)
    tops = [pl for pl in (1, 2) if any(ENTRIES[n][0].startswith("p/") for n in by_path[pl])]
    if len(tops) == 2:
        f.append("two-portions")
    if any(n == "ns/k" for n, _ in layout):
        f.append("initless-subdir")
    if any(n == "m.so" for n, _ in layout):
        f.append("extension-module")
    if any(n == "sub/n" for n, pl in layout) and not any(n == "sub/init" and pl2 == pl for (n, pl2) in layout for pl in [pl2] if any(m == "sub/n" and q == pl2 for m, q in layout)):
        f.append("initless-sub")
    elif any(n == "ns/pk/mod" and not any(m == "ns/pk/init" and q == pl for m, q in layout) for n, pl in layout):
        f.append("initless-sub")  # the same one level down: p/ns/pk/ holds a module but no __init__.py on that search path
    return "+".join(f) or "plain"


# which layout feature explains which kind of divergence (first present one is the tag; "plain" = none of them: a plain layout never
# shares a key with a known divergence)
CAUSES = {"missing/module": ["stub-only-package-dir"], "missing/package": ["stub-only-package-dir"], "extra": ["stub-only-package-dir", "initless-sub"],
          "precedence/package-vs-module": ["two-portions"], "precedence/search-path-order": ["stub-only-package-dir"], "class": ["stub-only-package-dir", "two-portions"]}


def tag(kind, feat):
    for prefix, causes in CAUSES.items():
        if kind.startswith(prefix):
            present = feat.split("+")
            return "/" + next((c for c in causes if c in present), "plain")
    return ""


def run_layout(griffe, acc, layout):
    feat = features(layout)
    files = files_of(layout)
    cd = {"layout": [list(x) for x in layout], "files": sorted(files)}
    size = len(layout)
    names = [n for n, _ in layout]
    with sandbox.scratch_dir("c14") as d:
        sandbox.write_tree(d, files)
        os.makedirs(os.path.join(d, "s1"), exist_ok=True)
        os.makedirs(os.path.join(d, "s2"), exist_ok=True)
        # (a pkgutil-style namespace __init__ extends __path__ at import time: the reference walker calls pkgutil.extend_path itself)
        ref = cpython_walk(d)
        try:
            mod, points = griffe_load(griffe, d, listing.ascending)
            base_json = canon_json(mod, d)
            tree = tree_of(mod, d)
            found = True
        except (ImportError, griffe.LoadingError) as e:
            found = False
            points = []
            tree = {}
            base_json = "NOTFOUND:" + type(e).__name__
        except Exception as e:  # noqa: BLE001
            import traceback

            tb = traceback.extract_tb(e.__traceback__)
            acc.violation(f"raise/{type(e).__name__}@{tb[-1].name}", f"load raised {e!r}", cd, None, size=size)
            acc.case(cd, outcome="raise")
            return
        acc.states += 1
        acc.transitions += len(points)
        acc.traces += 1
        # ---- the non-default option: with a `p-stubs` distribution next to it, the same layout loaded with find_stubs_package=True.  The stubs are merged in
        # (or stand for the package when there is nothing else); every runtime module of the default load is still there, from the same file; nothing else is raised
        if any(n.startswith("p-stubs") for n in names):
            try:
                mod_s, _pts = griffe_load(griffe, d, listing.ascending, stubs=True)
                tree_s = tree_of(mod_s, d)
                def _same(a, b):  # (a namespace package gains the stubs distribution's directory as one more portion)
                    return set(a) <= set(b) if isinstance(a, list) and isinstance(b, list) else a == b

                lost = sorted(k for k, t in tree.items() if not str(t["filepath"]).endswith(".pyi") and (k not in tree_s or not _same(t["filepath"], tree_s[k]["filepath"])))
                if lost:
                    acc.violation("stubs-option/runtime-module-lost", f"with find_stubs_package=True the runtime modules {lost} are gone or come from another file", cd, {"default": sorted(tree), "with_stubs": sorted(tree_s)}, size=size)
                j_desc = None
                try:
                    j_desc = canon_json(griffe_load(griffe, d, listing.descending, stubs=True)[0], d)
                except Exception as e:  # noqa: BLE001
                    j_desc = "RAISE:" + type(e).__name__
                if j_desc != canon_json(mod_s, d):
                    acc.violation("stubs-option/order", "with find_stubs_package=True the tree depends on the listing order (ascending vs descending)", cd, None, size=size)
            except (ImportError, griffe.LoadingError):
                if found:
                    acc.violation("stubs-option/not-found", "found by default, not found with find_stubs_package=True", cd, None, size=size)
            except Exception as e:  # noqa: BLE001
                import traceback

                tb = traceback.extract_tb(e.__traceback__)
                acc.violation(f"stubs-option/raise/{type(e).__name__}@{tb[-1].name}", f"load(find_stubs_package=True) raised {e!r}", cd, None, size=size)
        # ---- oracle 2: agreement with CPython's finders ------------------------------------------------------------------
        oracle2 = ref is not None
        ref = ref or {}
        ref_src = {k: v for k, v in ref.items() if v["origin"] is None or str(v["origin"]).endswith(".py")}
        if oracle2 and not ref and found and not all(str(t["filepath"]).endswith(".pyi") or "pyi" in str(t["filepath"]) for t in tree.values()):
            acc.violation("extra/top-level-not-importable", f"Griffe loads p from {tree.get('p', {}).get('filepath')} but CPython finds no module p", cd, {"tree": tree}, size=size)
        if oracle2 and ref and not found and any(str(v["origin"]).endswith(".py") or v["namespace"] for k, v in ref.items() if k == "p"):
            acc.violation(f"missing/top-level/{'namespace' if ref['p']['namespace'] else 'regular'}", f"CPython finds p at {ref['p']['origin'] or ref['p']['locations']} but Griffe: {base_json}", cd, None, size=size)
        if oracle2 and found and ref:
            for name, t in tree.items():
                fps = t["filepath"] if isinstance(t["filepath"], list) else [t["filepath"]]
                if all(fp.endswith(".pyi") for fp in fps):
                    continue  # stub-only module
                r = ref.get(name)
                if r is not None and r.get("pkgutil"):
                    continue  # how the package object itself is modelled (portions, no __init__ contents) is Griffe's choice; its submodules are judged
                if r is None:
                    acc.violation(f"extra/{_entry_kind(fps[0])}" + tag("extra", feat), f"Griffe loads {name} from {_rel(fps[0], d)} but CPython cannot import {name}", cd, {"ref": _refview(ref, d)}, size=size)
                    continue
                if r["namespace"]:
                    ok = sorted(os.path.normpath(x) for x in fps) == sorted(os.path.normpath(x) for x in r["locations"])
                else:
                    ok = os.path.normpath(fps[0]) == os.path.normpath(r["origin"])
                if not ok:
                    kind = "so-vs-py" if str(r["origin"]).endswith(".so") else "package-vs-module" if r["is_pkg"] != (t["is_package"] or t["is_subpackage"]) else "search-path-order"
                    acc.violation(f"precedence/{kind}" + tag(f"precedence/{kind}", feat), f"{name}: Griffe uses {[_rel(x, d) for x in fps]}, CPython {_rel(r['origin'], d) if r['origin'] else [_rel(x, d) for x in r['locations']]}", cd, {"ref": _refview(ref, d)}, size=size)
                    continue
                g_pkg = t["is_package"] or t["is_subpackage"] or t["is_namespace_package"] or t["is_namespace_subpackage"]
                g_ns = t["is_namespace_package"] or t["is_namespace_subpackage"]
                top = "." not in name
                flags_ok = (g_pkg == r["is_pkg"]) and (g_ns == r["namespace"]) and (not g_pkg or ((t["is_package"] or t["is_namespace_package"]) == top))
                if not flags_ok:
                    acc.violation(f"class/{'namespace' if r['namespace'] else 'package' if r['is_pkg'] else 'module'}/{'top' if top else 'sub'}" + tag("class", feat),
                                  f"{name}: Griffe flags {[k for k, v in t.items() if v is True]}, CPython is_pkg={r['is_pkg']} namespace={r['namespace']}", cd, None, size=size)
            for name, r in ref_src.items():
                if name not in tree:
                    parent = ref.get(name.rsplit(".", 1)[0], {"namespace": False})
                    if r["namespace"] and "." in name:
                        kind = "namespace-subpackage-inside-regular-package" if not parent["namespace"] else "namespace-subpackage"
                    elif "." in name and parent["namespace"] and "." in name.rsplit(".", 1)[0]:
                        kind = "module-under-nested-namespace"
                    elif any(ref.get(".".join(name.split(".")[:i]), {}).get("namespace") and ".".join(name.split(".")[:i]) not in tree for i in range(2, name.count(".") + 1)):
                        # further down below a nested namespace directory that is not loaded (same decision, deeper)
                        kind = "package-under-nested-namespace" if r["is_pkg"] else "module-under-nested-namespace"
                    else:
                        kind = "package" if r["is_pkg"] else "module"
                    acc.violation(f"missing/{kind}" + tag(f"missing/{kind}", feat), f"CPython finds {name} at {_rel(r['origin'], d) if r['origin'] else 'namespace'} but Griffe did not load it", cd, {"tree": sorted(tree)}, size=size)
        # ---- oracle 1: schedule and request-form independence ----------------------------------------------------------------
        nsched = 0
        if found:
            for sched in schedules(points, acc.dev):
                def order(dirpath, names_, what, sched=sched):
                    return list(sched.get((dirpath, what), sorted(names_)))

                nsched += 1
                try:
                    mod2, pts2 = griffe_load(griffe, d, order)
                    j2 = canon_json(mod2, d)
                except Exception as e:  # noqa: BLE001
                    j2 = "RAISE:" + type(e).__name__
                    pts2 = []
                acc.states += 1
                acc.transitions += len(pts2)
                acc.traces += 1
                if j2 != base_json:
                    (dd, what), perm = next(iter(sched.items()))
                    role = "search-path" if os.path.basename(dd) in ("s1", "s2") else "package-dir" if os.path.basename(dd) == "p" else "subdir"
                    sorted_names = sorted(perm)
                    pair = next((f"{_entry_kind(a)}<{_entry_kind(b)}" for a, b in zip(perm, sorted_names) if a != b), "?")
                    acc.violation(f"order/{role}/{what}/{pair}", f"listing {_rel(dd, d)} as {list(perm)} instead of {sorted_names} changes the loaded tree", cd,
                                  {"schedule": {f"{_rel(k[0], d)}:{k[1]}": list(v) for k, v in sched.items()}}, size=size + 1)
                    break
            # request by path
            if all(pl == 1 for _n, pl in layout):
                bp = os.path.join(d, "s1", "p") if os.path.isdir(os.path.join(d, "s1", "p")) and not os.path.exists(os.path.join(d, "s1", "p.py")) else None
                if bp:
                    try:
                        mod3, pts3 = griffe_load(griffe, d, listing.ascending, by_path=bp)
                        j3 = canon_json(mod3, d)
                    except Exception as e:  # noqa: BLE001
                        j3 = "RAISE:" + type(e).__name__ + ":" + str(e)[:80]
                        pts3 = []
                    acc.states += 1
                    acc.transitions += len(pts3)
                    acc.traces += 1
                    if j3 != base_json:
                        acc.violation("request/by-path-differs/" + "+".join(sorted(names)), f"load('{_rel(bp, d)}') yields a different tree than load('p')", cd, {"by_name": base_json[:300], "by_path": j3[:300]}, size=size)
    acc.case(cd, outcome=("found" if found else "notfound") + f":{min(nsched, 9)}sched", nontrivial=len(layout) >= 2)
    acc.counters["schedules"] += nsched + 1
    acc.observe(base_json)


def _rel(p, root):
    return str(p).replace(root + "/", "") if p else p


def _refview(ref, root):
    return {k: _rel(v["origin"], root) or "namespace" for k, v in ref.items()}


def _entry_kind(name):
    b = os.path.basename(str(name))
    if b.endswith(".so"):
        return "ext"
    if b.endswith(".pyi"):
        return "pyi"
    if b.endswith(".pyc"):
        return "pyc"
    if b.endswith(".py"):
        return "dotted-py" if b.count(".") > 1 else "py"
    if b.endswith(".txt"):
        return "data"
    if b == "__pycache__":
        return "pycache"
    if b.endswith("-stubs"):
        return "stubs-dir"
    return "dir"


# ---- family PTH: directories added by a `.pth` file of a search path ---------------------------------------------------------------
# s1 is a site directory: it holds the first portion of the namespace package p (with a regular sub-package p.sub) and `extra.pth`, whose single line names
# the directory `real` -- literally, through a symbolic link, relatively, or with `..` in it.  `real` holds a second portion of p (with its own, shadowed, p/sub)
# and the regular package reg.  Like site.addsitedir, the directory comes AFTER the search path that holds the .pth file.
PTH_FILES = {"s1/p/one.py": "a = 1\n", "s1/p/sub/__init__.py": "b = 1\n", "s1/p/sub/first.py": "c = 1\n", "real/p/two.py": "d = 1\n", "real/p/sub/__init__.py": "e = 1\n",
             "real/p/sub/second.py": "f = 1\n", "real/reg/__init__.py": "g = 1\n", "real/reg/m.py": "h = 1\n", "link": "SYMLINK->real"}
PTH_LINES = {"absolute": "{root}/real", "through-symlink": "{root}/link", "relative": "../real", "relative-symlink": "../link", "dot-dot": "{root}/s1/../real", "trailing-slash": "{root}/real/"}


def run_pth(griffe, acc):
    for lname, line in PTH_LINES.items():
        with sandbox.scratch_dir("c14p") as d:
            sandbox.write_tree(d, {**PTH_FILES, "s1/extra.pth": "# more packages\n" + line.replace("{root}", d) + "\n"})
            s1 = os.path.join(d, "s1")
            added = os.path.abspath(os.path.join(s1, line.replace("{root}", d)))  # (what site.addsitedir appends: made absolute, links not followed)
            for top in ("p", "reg"):
                ref = cpython_walk(d, [s1, added], top)
                want = {k: ([os.path.realpath(x) for x in v["locations"]] if v["namespace"] else os.path.realpath(v["origin"])) for k, v in ref.items()}
                outs = {}
                for order_name, order in (("ascending", listing.ascending), ("descending", listing.descending)):
                    for form in ("name", "path-as-written", "path-real") + (("path-first-portion",) if top == "p" else ()):
                        cd = {"family": "pth", "pth_line": lname, "top": top, "request": form, "listing": order_name}
                        # (by path: the directory of the package below the .pth directory, spelled as the line spells it or resolved; for p also its first portion, below s1)
                        target = top if form == "name" else os.path.join({"path-as-written": added, "path-real": os.path.join(d, "real"), "path-first-portion": s1}[form], top)
                        try:
                            with listing.Listing(order):
                                loader = griffe.GriffeLoader(search_paths=[s1], allow_inspection=False)
                                mod = loader.load(target, try_relative_path=form != "name")
                        except Exception as e:  # noqa: BLE001
                            acc.violation(f"pth/raise/{type(e).__name__}/{top}/{form}", f".pth line {lname}: load({target!r}) raised {e!r}", cd, None, size=1)
                            continue
                        got = {k: ([os.path.realpath(x) for x in t["filepath"]] if isinstance(t["filepath"], list) else os.path.realpath(t["filepath"])) for k, t in tree_of(mod, d).items()}
                        outs[(order_name, form)] = got
                        acc.states += 1
                        acc.traces += 1
                        acc.case(cd, outcome="pth:" + ("ok" if got == want else "differs"), nontrivial=True)
                        if got != want:
                            bad = sorted(k for k in set(got) | set(want) if got.get(k) != want.get(k))[0]
                            what = "missing" if bad not in got else "extra" if bad not in want else "portions" if isinstance(want[bad], list) else "precedence"
                            acc.violation(f"pth/{what}/{top}/{'by-name' if form == 'name' else 'by-path'}", f".pth line {lname}, {top} requested by {form} ({order_name} listing): {bad} is {_relp(got.get(bad), d)}, CPython (site.addsitedir) has {_relp(want.get(bad), d)}", cd, None, size=1)
                acc.observe(sorted(map(str, outs)))


def _relp(v, d):
    real = os.path.realpath(d)
    return [x.replace(real, "<root>") for x in v] if isinstance(v, list) else (v.replace(real, "<root>") if isinstance(v, str) else v)


# ---- family T3: three search paths ---------------------------------------------------------------------------------------------------
# each of s1, s2, s3 holds one entry of a reduced alphabet (regular __init__, two different namespace-portion modules, a regular sub-package): 64 layouts,
# 125 with the pkgutil-style __init__; among them namespace packages of three portions and regular packages shadowing two later portions.  Same two oracles (order independence; CPython's finders).
T3_ENTRIES = ["init", "ns-portion", "m.py", "sub/init", "pkgutil-ns"]  # (pkgutil-ns: a declared pkgutil-style portion followed by one or two undeclared ones)


def run_three_paths(griffe, acc):
    for combo in itertools.product(T3_ENTRIES, repeat=3):
        files = {f"s{i + 1}/" + ENTRIES[n][0]: ENTRIES[n][1] for i, n in enumerate(combo)}
        for i, n in enumerate(combo):
            if n in ("init", "pkgutil-ns"):
                files[f"s{i + 1}/p/mod{i + 1}.py"] = f"y = {i + 1}\n"  # (a module of its own next to every __init__: which portions count shows in which modules exist)
        cd = {"family": "three-paths", "layout": list(combo)}
        with sandbox.scratch_dir("c14t") as d:
            sandbox.write_tree(d, files)
            paths = [os.path.join(d, f"s{i}") for i in (1, 2, 3)]
            ref = cpython_walk(d, paths, "p")
            # (how a pkgutil-style package object itself is modelled -- portions, no __init__ contents -- is Griffe's choice: its submodules are judged)
            skip = {k for k, v in ref.items() if v.get("pkgutil")}
            want = {k: ([os.path.realpath(x) for x in v["locations"]] if v["namespace"] else os.path.realpath(v["origin"])) for k, v in ref.items() if k not in skip}
            seen = {}
            for order_name, order in (("ascending", listing.ascending), ("descending", listing.descending)):
                for form in ("name", "path-1", "path-2", "path-3"):
                    target = "p" if form == "name" else os.path.join(paths[int(form[-1]) - 1], "p")
                    try:
                        with listing.Listing(order):
                            loader = griffe.GriffeLoader(search_paths=paths, allow_inspection=False)
                            mod = loader.load(target, try_relative_path=form != "name")
                    except Exception as e:  # noqa: BLE001
                        acc.violation(f"three-paths/raise/{type(e).__name__}/{'by-name' if form == 'name' else 'by-path'}", f"layout {combo}: load({form}) raised {e!r}", cd, None, size=3)
                        continue
                    got = {k: ([os.path.realpath(x) for x in t["filepath"]] if isinstance(t["filepath"], list) else os.path.realpath(t["filepath"])) for k, t in tree_of(mod, d).items() if k not in skip}
                    seen[(order_name, form)] = got
                    acc.states += 1
                    acc.traces += 1
                    if got != want:
                        bad = sorted(k for k in set(got) | set(want) if got.get(k) != want.get(k))[0]
                        what = "missing" if bad not in got else "extra" if bad not in want else "portions" if isinstance(want[bad], list) else "precedence"
                        kinds = "+".join(sorted(set(combo)))
                        acc.violation(f"three-paths/{what}/{'by-name' if form == 'name' else 'by-path'}/{kinds}", f"layout s1..s3 = {combo}, p requested by {form} ({order_name}): {bad} is {_relp(got.get(bad), d)}, CPython has {_relp(want.get(bad), d)}", cd, None, size=3)
            acc.case(cd, outcome="three-paths:" + ("ok" if all(v == want for v in seen.values()) else "differs"), nontrivial=True)
            acc.observe(sorted(map(str, seen)))


def run_shard(shard, tier):
    boot.boot()
    import griffe

    acc = Acc()
    acc.max_samples = 2
    if shard == 0:
        run_pth(griffe, acc)
    if shard == 1:
        run_three_paths(griffe, acc)
    for maxe, dev in _PLAN[tier]:
        acc.dev = dev
        for idx, layout in enumerate(layouts(maxe)):
            if idx % NSHARDS != shard:
                continue
            try:
                run_layout(griffe, acc, layout)
            except Exception as e:  # noqa: BLE001
                import traceback

                acc.violation(f"harness-error/{type(e).__name__}", repr(e), {"layout": [list(x) for x in layout]}, {"tb": traceback.format_exc()[-900:]})
    return acc.result()


def replay(case):
    boot.boot()
    import griffe

    acc = Acc()
    acc.dev = 2
    if case.get("family") in ("pth", "three-paths"):
        (run_pth if case["family"] == "pth" else run_three_paths)(griffe, acc)
        return [(k, v["summary"], v["detail"]) for k, v in acc.violations.items()]
    run_layout(griffe, acc, tuple((n, pl) for n, pl in case["layout"]))
    return [(k, v["summary"], v["detail"]) for k, v in acc.violations.items()]
