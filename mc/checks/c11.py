"""C11 — API diff: silent on compatible change, reports every public removal / re-kinding.  (E2 over edit scripts)

Base packages (pkg/__init__.py re-exporting through __all__ and holding a subclass, pkg/a.py with public and private
functions, a class hierarchy, attributes, pkg/_priv.py) in three variants: plain, with an unresolvable re-export, with a cyclic
re-export.  An edit catalogue (compatible: identity, add function/class/attribute, append an optional keyword parameter,
remove / re-kind / change private objects, change a docstring, add a base, reorder; incompatible: remove a public object,
change its kind, remove a base class, change a public attribute's value, remove the target of a re-export, remove the
base-class member an inherited name comes from) is applied at every location where it makes sense.
Explicit-state BFS over edit scripts of length <= 2 (quick) / 3 (thorough): a state is the edited source tree
(deduplicated); every (base, state) pair is diffed by the real find_breaking_changes after load + resolve_aliases.
Oracle: scripts of compatible edits => no breakage; every incompatible edit at object O => a breakage of the right kind whose
path is one of O's public paths (definition, re-export, inherited), unless O's container was itself removed/re-kinded;
private and imported-not-exported objects never appear; the generator is exhausted without raising; explain() works in
every style; for single-edit states a real two-commit git repository is built and `check()` must return 1 iff breakages.
"""
from __future__ import annotations

import hashlib
import itertools
import os
import subprocess

from mc.core import boot, sandbox
from mc.core.driver import Acc

PROPERTY = "C11"
LEVEL = "model_checking"
NSHARDS = 48
RULE = (
    "BFS over edit scripts up to the length bound from each base package; states = distinct edited source trees; each transition applies one catalogue edit and is "
    "validated by diffing (base, state) with the real finder/loader/diff; non-trivial states differ from the base"
)
ASSUMPTIONS = ["public paths of each object (definition, re-export through __all__, inherited) are tabulated by hand for the base packages",
               "parameter-level compatibility is C10's subject; here only 'append an optional keyword parameter' is used"]
MANIFEST = {
    "category": "model_checking",
    "text": "Explicit-state BFS over edit scripts (length <= 2 quick, <= 3 thorough) drawn from a catalogue of 18 compatible and 26 incompatible edits on four base packages (plain, unresolvable re-export, cyclic re-export, a cycle of public modules; each with a module that exports nothing); every reached source tree is loaded and diffed against its base with the real find_breaking_changes, judged against a compatibility table with public-path sets; single-edit states are also checked through a real git repository and check(). The base package has a lazy-import module (underscore names listed in __all__, names imported under TYPE_CHECKING only and listed in __all__) with six edits on it. __all__ is also assembled over three modules (pkg.api <- pkg._base <- pkg._core).",
    "note": "The compatibility table and public-path sets are hand-written for the base packages; complete for scripts up to the stated length.",
    "technique": "explicit-state model checking over edit scripts (two-version histories) on the real loader and diff, with a compatibility-table oracle",
}

A_PY = [
    'def f(x, y=1):\n    """Doc f."""',
    "def _g(): ...",
    "class _PB:\n    def pbm(self): ...\n    def other(self): ...\n    shared = 1",
    "class Base(_PB):\n    def bm(self): ...\n    battr = 1\n    shared = 2",  # (shared: declared by the private base AND re-declared here: the nearest one is what subclasses inherit)
    'class K(Base):\n    """Doc K."""\n    attr = 1\n    def m(self, p): ...\n    def _pm(self): ...',
    # a class with a single public path (no re-export, no subclass): nothing else can report for it
    "class L(Base):\n    lattr = 1\n    def lm(self): ...",
    "w = 2",
    "_pw = 3",
    # public by name, marked private by an extension (`:meta private:` in the docstring)
    'def meta_hidden(a, b):\n    """Helper.\n\n    :meta private:\n    """',
    'class MetaHidden:\n    """:meta private:"""\n    limit = 1',
]
INIT_PY = ["from pkg.a import f as f", "from pkg.a import K", "from pkg._priv import helper", "from pkg._priv import pub_helper", '__all__ = ["f", "K", "VALUE", "Sub", "pub_helper"{EXTRA_ALL}]', "VALUE = 1", "class Sub(K):\n    pass"]
# a module that exports nothing (`__all__ = []`): all of it is private, whatever the names look like
INTERNAL_PY = ["__all__ = []", "DEFAULT = 1", "def ihelper(a, b): ...", "class Impl:\n    def run(self): ..."]
# a public module whose `__all__` is assembled from a private sibling's: the sibling's names are public as pkg.api.<name> only
API_PY = ["from pkg import _base", "from pkg._base import *", '__all__ = _base.__all__ + ["g"]', "def g(): ..."]
# (the private sibling's own list is assembled from a third module's: pkg.api <- pkg._base <- pkg._core)
BASE_PY = ["from pkg import _core", "from pkg._core import *", '__all__ = _core.__all__ + ["bf", "LIMIT"]', "def bf(a): ...", "LIMIT = 1", "def unlisted(): ..."]
CORE_PY = ['__all__ = ["cf"]', "def cf(a): ...", "def core_unlisted(): ..."]
# the lazy-import layout: names listed in __all__ that start with an underscore (public all the same: __all__ decides), and names imported under
# `if TYPE_CHECKING:` only (served at runtime by a module-level __getattr__) that __all__ lists too
LAZY_PY = ["from typing import TYPE_CHECKING", "if TYPE_CHECKING:\n    from pkg._models import Model\n    from pkg._models import Field", '__all__ = ["run", "_hook", "_Registry", "Model", "Field"]',
           "def run(): ...", "def _hook(a, b): ...", "class _Registry:\n    def reg(self): ...", "def _unlisted(): ...", "def __getattr__(name): ..."]
MODELS_PY = ["class Model:\n    def save(self): ...", "class Field:\n    pass"]
PRIV_PY = ["def helper(): ...", "def pub_helper(a): ..."]  # pub_helper: defined in a private module, public only through the re-export pkg.pub_helper
VARIANTS = {
    "plain": {"init_extra": [], "a_extra": [], "all": ""},
    "unresolvable-reexport": {"init_extra": ["from pkg.missing import gone"], "a_extra": [], "all": ', "gone"'},
    "cyclic-reexport": {"init_extra": ["from pkg.a import cyc"], "a_extra": ["from pkg import cyc"], "all": ', "cyc"'},
    # a cycle of PUBLIC MODULES: the package exports its submodule a, a exports the package back (CPython imports this fine; pkg.a.pkg.a.f is a valid path)
    "module-cycle": {"init_extra": ["from pkg import a"], "a_extra": ["import pkg", '__all__ = ["f", "Base", "K", "L", "w", "pkg"]'], "all": ', "a"'},
}
# public paths through which an object can be reached
PUBLIC = {
    "pkg.a.f": {"pkg.a.f", "pkg.f"}, "pkg.a.K": {"pkg.a.K", "pkg.K"}, "pkg.a.K.attr": {"pkg.a.K.attr", "pkg.K.attr", "pkg.Sub.attr"},
    "pkg.a.K.m": {"pkg.a.K.m", "pkg.K.m", "pkg.Sub.m"}, "pkg.a.Base.bm": {"pkg.a.Base.bm", "pkg.a.K.bm", "pkg.K.bm", "pkg.Sub.bm", "pkg.a.L.bm"},
    "pkg.pub_helper": {"pkg.pub_helper"}, "pkg._base.bf": {"pkg.api.bf"}, "pkg._base.LIMIT": {"pkg.api.LIMIT"}, "pkg.a.Base.shared": {"pkg.a.Base.shared", "pkg.a.K.shared", "pkg.K.shared", "pkg.Sub.shared", "pkg.a.L.shared"}, "pkg.a.L": {"pkg.a.L"}, "pkg.a.L.lm": {"pkg.a.L.lm"}, "pkg.a.L.lattr": {"pkg.a.L.lattr"},
    "pkg._core.cf": {"pkg.api.cf"},
    "pkg.lazy._hook": {"pkg.lazy._hook"}, "pkg.lazy._Registry": {"pkg.lazy._Registry"}, "pkg.lazy.Model": {"pkg.lazy.Model"}, "pkg.lazy.Field": {"pkg.lazy.Field"},
    "pkg.a.f@definition": {"pkg.a.f"}, "pkg.a.Base.bm@definition": {"pkg.a.Base.bm"},
    "pkg.a.Base": {"pkg.a.Base"}, "pkg.a._PB.pbm": {"pkg.a.Base.pbm", "pkg.a.K.pbm", "pkg.K.pbm", "pkg.Sub.pbm", "pkg.a.L.pbm"}, "pkg.a.w": {"pkg.a.w"}, "pkg.VALUE": {"pkg.VALUE"}, "pkg.Sub": {"pkg.Sub"}, "pkg.a.Base.battr": {"pkg.a.Base.battr", "pkg.a.K.battr", "pkg.K.battr", "pkg.Sub.battr", "pkg.a.L.battr"},
}
PRIVATE_MARKERS = ("_g", "_pm", "_pw", "helper", "_priv", "_PB", "internal", "meta_hidden", "MetaHidden")


def _sub(stmts, old, new):
    out = [s.replace(old, new) if old in s else s for s in stmts]
    assert out != stmts, (old, stmts)
    return out


# edit = (name, compatible?, function(files)->files, expectation)
# expectation for incompatible edits: (object definition path, breakage kind substring, container whose loss waives it)
def catalogue():
    E = []

    def edit(name, compat, file, fn, expect=None):
        E.append({"name": name, "compat": compat, "file": file, "fn": fn, "expect": expect})

    A, I, P = "pkg/a.py", "pkg/__init__.py", "pkg/_priv.py"
    edit("identity", True, A, lambda s: list(s))
    edit("add-function", True, A, lambda s: s + ["def new_fn(): ..."])
    edit("add-class", True, A, lambda s: s + ["class NewC: ..."])
    edit("add-attribute", True, A, lambda s: s + ["new_attr = 1"])
    edit("add-optional-param", True, A, lambda s: _sub(s, "def f(x, y=1):", "def f(x, y=1, z=None):"))
    edit("remove-private-fn", True, A, lambda s: [x for x in s if not x.startswith("def _g")])
    edit("rekind-private-fn", True, A, lambda s: _sub(s, "def _g(): ...", "_g = 1"))
    edit("change-private-value", True, A, lambda s: _sub(s, "_pw = 3", "_pw = 4"))
    edit("remove-private-method", True, A, lambda s: _sub(s, "\n    def _pm(self): ...", ""))
    edit("edit-docstring", True, A, lambda s: _sub(s, '"""Doc f."""', '"""Doc f, reworded."""'))
    edit("add-base", True, A, lambda s: _sub(s, "class K(Base):", "class K(Base, object):"))
    edit("reorder", True, A, lambda s: list(reversed(s[:2])) + s[2:])
    edit("rekind-unexported-import-target", True, P, lambda s: _sub(s, "def helper(): ...", "helper = 1"))
    edit("add-to-init", True, I, lambda s: s + ["def init_new(): ..."])
    edit("change-overridden-attr-of-private-base", True, A, lambda s: _sub(s, "    shared = 1", "    shared = 9"))
    edit("remove-object-marked-private-by-extension", True, A, lambda s: [x for x in s if not x.startswith("def meta_hidden")])
    edit("change-params-of-object-marked-private-by-extension", True, A, lambda s: _sub(s, "def meta_hidden(a, b):", "def meta_hidden(a):"))
    edit("change-value-in-class-marked-private-by-extension", True, A, lambda s: _sub(s, "    limit = 1", "    limit = 2"))
    B = "pkg/_base.py"
    edit("remove-unlisted-of-private-sibling", True, B, lambda s: [x for x in s if not x.startswith("def unlisted")])
    edit("remove-name-exported-through-assembled-all", False, None, lambda fs: {**fs, "pkg/_base.py": [x.replace('"bf", ', "") for x in fs["pkg/_base.py"] if not x.startswith("def bf")]}, ("pkg._base.bf", "removed", None))
    edit("change-value-exported-through-assembled-all", False, B, lambda s: _sub(s, "LIMIT = 1", "LIMIT = 2"), ("pkg._base.LIMIT", "value was changed", None))
    edit("remove-name-exported-through-three-module-all", False, None, lambda fs: {**fs, "pkg/_core.py": ['__all__ = []'] + [x for x in fs["pkg/_core.py"][1:] if not x.startswith("def cf")]} if any(x.startswith("def cf") for x in fs["pkg/_core.py"]) else fs, ("pkg._core.cf", "removed", None))
    edit("remove-unlisted-of-third-module", True, "pkg/_core.py", lambda s: [x for x in s if not x.startswith("def core_unlisted")])
    N = "pkg/internal.py"
    edit("change-value-in-module-exporting-nothing", True, N, lambda s: _sub(s, "DEFAULT = 1", "DEFAULT = 2"))
    edit("rekind-in-module-exporting-nothing", True, N, lambda s: _sub(s, "class Impl:\n    def run(self): ...", "Impl = 1"))
    edit("remove-param-in-module-exporting-nothing", True, N, lambda s: _sub(s, "def ihelper(a, b): ...", "def ihelper(a): ..."))
    Z, MO = "pkg/lazy.py", "pkg/_models.py"
    edit("remove-unlisted-underscore-name", True, Z, lambda s: [x for x in s if not x.startswith("def _unlisted")])
    edit("remove-underscore-name-listed-in-all", False, Z, lambda s: [x.replace('"_hook", ', "") for x in s if not x.startswith("def _hook")], ("pkg.lazy._hook", "removed", None))
    edit("rekind-underscore-class-listed-in-all", False, Z, lambda s: _sub(s, "class _Registry:\n    def reg(self): ...", "_Registry = 1"), ("pkg.lazy._Registry", "kind", None))
    edit("remove-param-of-underscore-name-listed-in-all", False, Z, lambda s: _sub(s, "def _hook(a, b): ...", "def _hook(a): ..."), ("pkg.lazy._hook", "Parameter was removed", None))
    edit("drop-type-guarded-reexport", False, Z, lambda s: [x.replace("\n    from pkg._models import Model", "").replace('"Model", ', "") for x in s] if any('"Model", ' in x for x in s) else s, ("pkg.lazy.Model", "removed", None))
    edit("rekind-target-of-type-guarded-reexport", False, MO, lambda s: _sub(s, "class Field:\n    pass", "def Field(): ..."), ("pkg.lazy.Field", "kind", None))
    # incompatible
    edit("remove-f", False, A, lambda s: [x for x in s if not x.startswith("def f(")], ("pkg.a.f", "removed", None))
    edit("rekind-f", False, A, lambda s: _sub(s, 'def f(x, y=1):\n    """Doc f."""', "f = 1"), ("pkg.a.f", "kind", None))
    edit("remove-K", False, A, lambda s: [x for x in s if not x.startswith("class K(")], ("pkg.a.K", "removed", None))
    edit("rekind-K", False, A, lambda s: [("def K(): ..." if x.startswith("class K(") else x) for x in s], ("pkg.a.K", "kind", None))
    edit("remove-base", False, A, lambda s: _sub(s, "class K(Base):", "class K:"), ("pkg.a.K", "Base class was removed", "pkg.a.K"))
    edit("remove-base-L", False, A, lambda s: _sub(s, "class L(Base):", "class L:"), ("pkg.a.L", "Base class was removed", "pkg.a.L"))
    edit("remove-method-lm", False, A, lambda s: _sub(s, "\n    def lm(self): ...", ""), ("pkg.a.L.lm", "removed", "pkg.a.L"))
    edit("change-lattr-value", False, A, lambda s: _sub(s, "    lattr = 1", "    lattr = 2"), ("pkg.a.L.lattr", "value was changed", "pkg.a.L"))
    edit("swap-base", False, A, lambda s: _sub(s, "class L(Base):", "class L(_PB):"), ("pkg.a.L", "Base class was removed", "pkg.a.L"))
    edit("rekind-reexported-from-private-module", False, P, lambda s: _sub(s, "def pub_helper(a): ...", "pub_helper = 1"), ("pkg.pub_helper", "kind", None))
    edit("remove-reexported-from-private-module", False, None, lambda fs: {**fs, "pkg/_priv.py": [x for x in fs["pkg/_priv.py"] if not x.startswith("def pub_helper")],
                                                                           "pkg/__init__.py": [x.replace(', "pub_helper"', "") for x in fs["pkg/__init__.py"] if x != "from pkg._priv import pub_helper"]},
         ("pkg.pub_helper", "removed", None))
    edit("change-redeclared-attr", False, A, lambda s: _sub(s, "    shared = 2", "    shared = 8"), ("pkg.a.Base.shared", "value was changed", "pkg.a.Base"))
    # the definition disappears from the private module while the re-export (import + __all__ entry) stays behind, now dangling
    edit("remove-target-of-reexport", False, P, lambda s: [x for x in s if not x.startswith("def pub_helper")], ("pkg.pub_helper", "removed", None))
    edit("change-attr-value", False, A, lambda s: _sub(s, "    attr = 1", "    attr = 2"), ("pkg.a.K.attr", "value was changed", "pkg.a.K"))
    edit("change-w-value", False, A, lambda s: _sub(s, "w = 2", "w = 5"), ("pkg.a.w", "value was changed", None))
    edit("remove-w", False, A, lambda s: [x for x in s if x != "w = 2"], ("pkg.a.w", "removed", None))
    edit("rekind-w", False, A, lambda s: _sub(s, "w = 2", "def w(): ..."), ("pkg.a.w", "kind", None))
    edit("remove-method", False, A, lambda s: _sub(s, "\n    def m(self, p): ...", ""), ("pkg.a.K.m", "removed", "pkg.a.K"))
    edit("remove-inherited-source", False, A, lambda s: _sub(s, "    def bm(self): ...\n", ""), ("pkg.a.Base.bm", "removed", "pkg.a.Base"))
    edit("remove-member-of-private-base", False, A, lambda s: _sub(s, "    def pbm(self): ...\n", ""), ("pkg.a._PB.pbm", "removed", "pkg.a.Base"))
    edit("remove-Base", False, A, lambda s: [x for x in s if not x.startswith("class Base")], ("pkg.a.Base", "removed", None))
    edit("change-VALUE", False, I, lambda s: _sub(s, "VALUE = 1", "VALUE = 2"), ("pkg.VALUE", "value was changed", None))
    edit("remove-Sub", False, I, lambda s: [x for x in s if not x.startswith("class Sub")], ("pkg.Sub", "removed", None))
    def move_f_to_init(fs):
        fs["pkg/a.py"] = [x for x in fs["pkg/a.py"] if not x.startswith("def f(")]
        assert "from pkg.a import f as f" in fs["pkg/__init__.py"]
        fs["pkg/__init__.py"] = [('def f(x, y=1):\n    """Doc f."""' if x == "from pkg.a import f as f" else x) for x in fs["pkg/__init__.py"]]
        return fs

    def move_bm_down(fs):
        a = fs["pkg/a.py"]
        a2 = _sub(a, "    def bm(self): ...\n", "")
        fs["pkg/a.py"] = _sub(a2, "    attr = 1\n", "    attr = 1\n    def bm(self): ...\n")
        return fs

    # the object disappears at its definition path while a re-export / inherited path keeps working: still a removal at the old path
    edit("move-f-into-init", False, None, move_f_to_init, ("pkg.a.f@definition", "removed", None))
    edit("move-method-down", False, None, move_bm_down, ("pkg.a.Base.bm@definition", "removed", "pkg.a.Base"))
    edit("drop-reexport", False, I, lambda s: [x for x in s if x != "from pkg.a import f as f"], ("pkg.a.f", "removed", None))
    return E


CAT = catalogue()
_MAXL = {"quick": 2, "thorough": 3}


def bounds(tier):
    return {"bases": list(VARIANTS), "edits": [e["name"] for e in CAT], "max_script_length": _MAXL[tier]}


def base_files(variant):
    v = VARIANTS[variant]
    init = [s.replace("{EXTRA_ALL}", v["all"]) for s in INIT_PY] + v["init_extra"]
    return {"pkg/__init__.py": init, "pkg/a.py": A_PY + v["a_extra"], "pkg/_priv.py": list(PRIV_PY), "pkg/internal.py": list(INTERNAL_PY), "pkg/api.py": list(API_PY), "pkg/_base.py": list(BASE_PY),
            "pkg/lazy.py": list(LAZY_PY), "pkg/_models.py": list(MODELS_PY), "pkg/_core.py": list(CORE_PY)}


def apply_script(variant, script):
    files = base_files(variant)
    for ei in script:
        e = CAT[ei]
        if e["file"] is None:
            # an edit touching two files (moving a definition)
            try:
                newfiles = e["fn"]({k: list(v) for k, v in files.items()})
            except AssertionError:
                return None
            if newfiles == files:
                return None
            files = newfiles
            continue
        try:
            new = e["fn"](files[e["file"]])
        except AssertionError:
            return None  # edit not applicable any more (its location was edited away)
        if new == files[e["file"]] and e["name"] != "identity":
            return None  # nothing left to edit: not a script of this catalogue
        files[e["file"]] = new
    return files


def render(files):
    return {k: "\n".join(v) + "\n" for k, v in files.items()}


def shards(tier):
    return [(v, i) for v in VARIANTS for i in range(NSHARDS // 3)]


_EXT = {}


def _extensions(griffe):
    """An extension of the documented kind that marks objects private (`obj.public = False`) by a docstring convention: what it marks is private for the comparison too."""
    if "ext" not in _EXT:
        class MetaPrivate(griffe.Extension):
            def on_instance(self, *, obj, **kwargs):  # noqa: ARG002
                if obj.docstring and ":meta private:" in obj.docstring.value:
                    obj.public = False

        _EXT["ext"] = MetaPrivate
    return griffe.load_extensions(_EXT["ext"]())


def _load(griffe, root):
    loader = griffe.GriffeLoader(search_paths=[root], allow_inspection=False, extensions=_extensions(griffe))
    pkg = loader.load("pkg")
    loader.resolve_aliases(implicit=True, external=False)
    return pkg


def judge(griffe, variant, script, old_pkg, new_pkg):
    """-> (violations [(key, summary)], breakage list)"""
    viols = []
    try:
        brs = list(griffe.find_breaking_changes(old_pkg, new_pkg))
    except Exception as e:  # noqa: BLE001
        import traceback

        tb = traceback.extract_tb(e.__traceback__)
        frame = next((f.name for f in reversed(tb) if "_griffe" in f.filename), tb[-1].name)
        return [(f"abort/{type(e).__name__}@{frame}/{variant}", f"find_breaking_changes raised {e!r}")], []
    seen = [(b.kind.value, b.obj.path) for b in brs]
    for b in brs:
        for style in ("oneline", "verbose", "markdown", "github"):
            try:
                b.explain(griffe.ExplanationStyle(style))
            except Exception as e:  # noqa: BLE001
                viols.append((f"explain/{type(e).__name__}/{style}/{b.kind.name}", f"explain({style}) raised {e!r} for {b.obj.path}"))
    edits = [CAT[i] for i in script]
    incompat = [e for e in edits if not e["compat"]]
    # what containers were removed / re-kinded by the script (waives expectations below them)
    lost = {e["expect"][0].split("@")[0] for e in incompat if e["expect"][1] in ("removed", "kind") and "@" not in e["expect"][0]}
    if not incompat:
        if seen:
            viols.append((f"noise/{'+'.join(sorted({e['name'] for e in edits}))}/{seen[0][0]}", f"only compatible edits {[e['name'] for e in edits]} but reported: {seen[:3]}"))
    else:
        for e in incompat:
            target, kind_sub, container = e["expect"]
            bare = target.split("@")[0]
            if container in lost or any(bare != l and bare.startswith(l + ".") for l in lost) or (target != bare and bare in lost):
                continue
            if kind_sub != "removed" and any(x["expect"][0] == bare and x["expect"][1] == "removed" for x in incompat if x is not e):
                continue  # the same object is also removed by the script: the removal is what has to be reported
            if e["name"] in ("remove-base", "remove-base-L", "swap-base") and "pkg.a.Base" in lost:
                continue
            if e["name"] == "drop-reexport" and "pkg.a.f" in lost:
                continue
            paths = PUBLIC[target] if e["name"] != "drop-reexport" else {"pkg.f"}
            hit = [s for s in seen if s[1] in paths and kind_sub.lower() in s[0].lower()]
            private_def = {"pkg.pub_helper": "pkg._priv.pub_helper", "pkg._base.bf": "pkg._base.bf", "pkg._base.LIMIT": "pkg._base.LIMIT", "pkg.lazy.Field": "pkg._models.Field", "pkg._core.cf": "pkg._core.cf"}.get(target)
            if not hit and private_def and any(s[1] == private_def and kind_sub.lower() in s[0].lower() for s in seen):
                # reported, but against the canonical path inside the private module instead of a public path of the object
                viols.append((f"wrong-path/{e['name']}", f"edit {e['name']} on {target}: the '{kind_sub}' breakage is reported at {private_def}, none of the object's public paths {sorted(paths)}"))
                hit = True
            if not hit:
                others = "+".join(sorted({x["name"] for x in edits if x is not e})) or "alone"
                viols.append((f"silent/{e['name']}/{'alone' if others == 'alone' else 'with-' + others}", f"edit {e['name']} on {target}: no '{kind_sub}' breakage at any of {sorted(paths)}; reported: {seen[:4]}"))
    for kind, path in seen:
        last = path.rsplit(".", 1)[-1]
        if path in ("pkg._priv.pub_helper", "pkg._models.Field"):
            continue  # judged above (wrong-path/...): one diagnosis per cause
        if path == "pkg.a._PB.shared" and any(e["name"] == "swap-base" for e in edits) and "value" in kind.lower():
            # class L(Base) -> class L(_PB): L.shared now comes from the private base (2 -> 1), a real change of the public pkg.a.L.shared,
            # but reported against the canonical path inside the private class (same cause as wrong-path/...: breakages carry the target)
            viols.append(("wrong-path/inherited-through-private-base", f"the value change of pkg.a.L.shared (inherited, 2 -> 1 after the base swap) is reported at {path}"))
            continue
        if any(last == m or f".{m}." in path + "." for m in PRIVATE_MARKERS):
            viols.append((f"noise/private/{last}/{kind}", f"breakage reported on private / not exported object {path} ({kind})"))
    return viols, seen


def _git(args, cwd):
    subprocess.run(["git", *args], cwd=cwd, check=True, capture_output=True)


def cli_check(griffe, old_files, new_files, expect_breaks, d):
    """Two-commit repository, check() exit code."""
    from _griffe import cli

    repo = os.path.join(d, "repo")
    os.makedirs(repo)
    _git(["init", "-q", "-b", "main"], repo)
    sandbox.write_tree(repo, old_files)
    _git(["add", "-A"], repo)
    _git(["commit", "-q", "-m", "v0"], repo)
    _git(["tag", "v0"], repo)
    for k in list(old_files):
        os.remove(os.path.join(repo, k))
    sandbox.write_tree(repo, new_files)
    _git(["add", "-A"], repo)
    _git(["commit", "-q", "--allow-empty", "-m", "v1"], repo)
    cwd = os.getcwd()
    try:
        os.chdir(repo)
        import contextlib
        import io

        with contextlib.redirect_stdout(io.StringIO()), contextlib.redirect_stderr(io.StringIO()):
            rc = cli.check("pkg", against="v0", extensions=[_EXT["ext"]] if _EXT else None)  # cwd is the repository root: both versions are found relative to their checkout
    finally:
        os.chdir(cwd)
    return rc


def run_shard(shard, tier):
    boot.boot()
    import griffe

    variant, part = shard
    nparts = NSHARDS // 3
    acc = Acc()
    maxl = _MAXL[tier]
    with sandbox.scratch_dir("c11") as d:
        base_dir = os.path.join(d, "base")
        sandbox.write_tree(base_dir, render(base_files(variant)))
        seen_states = {}
        idx = 0
        for n in range(1, maxl + 1):
            for script in itertools.product(range(len(CAT)), repeat=n):
                if len(set(script)) != len(script):
                    continue
                idx += 1
                if idx % nparts != part:
                    continue
                files = apply_script(variant, script)
                if files is None:
                    continue
                rendered = render(files)
                h = hashlib.sha1(repr(sorted(rendered.items())).encode()).hexdigest()
                names = [CAT[i]["name"] for i in script]
                acc.transitions += 1
                if h in seen_states and len(seen_states[h]) <= len(script):
                    # same source tree reached by another script: the diff is a function of the tree, but the expectation depends on the script
                    pass
                seen_states.setdefault(h, script)
                sdir = os.path.join(d, f"s{idx}")
                sandbox.write_tree(sdir, rendered)
                try:
                    old_pkg = _load(griffe, base_dir)
                    new_pkg = _load(griffe, sdir)
                except Exception as e:  # noqa: BLE001
                    acc.violation(f"load-raise/{type(e).__name__}/{variant}", f"loading raised {e!r} for script {names}", {"variant": variant, "script": names}, None, size=len(script))
                    continue
                viols, seen = judge(griffe, variant, script, old_pkg, new_pkg)
                acc.traces += 1
                acc.case({"variant": variant, "script": names}, outcome=("compatible" if all(CAT[i]["compat"] for i in script) else "incompatible") + (":reported" if seen else ":silent"),
                         nontrivial=names != ["identity"])
                acc.observe(sorted(seen))
                for key, summary in viols:
                    acc.violation(key, summary, {"variant": variant, "script": names, "files": rendered}, {"reported": seen[:8]}, size=len(script))
                if n == 1:
                    try:
                        rc = cli_check(griffe, render(base_files(variant)), rendered, bool(seen), sdir)
                        if (rc != 0) != bool(seen):
                            acc.violation(f"exit/{'breakages' if seen else 'clean'}-rc{rc}", f"check() returned {rc} but find_breaking_changes reports {len(seen)} breakage(s) for {names}", {"variant": variant, "script": names}, None, size=1)
                    except Exception as e:  # noqa: BLE001
                        acc.violation(f"exit/raise/{type(e).__name__}", f"check() raised {e!r} for {names}", {"variant": variant, "script": names}, None, size=1)
                import shutil

                shutil.rmtree(sdir, ignore_errors=True)
        acc.states += len(seen_states)
    return acc.result()


def replay(case):
    boot.boot()
    import griffe

    variant = case["variant"]
    names = [e["name"] for e in CAT]
    script = tuple(names.index(n) for n in case["script"])
    with sandbox.scratch_dir("c11r") as d:
        sandbox.write_tree(os.path.join(d, "base"), render(base_files(variant)))
        sandbox.write_tree(os.path.join(d, "new"), render(apply_script(variant, script)))
        viols, _ = judge(griffe, variant, script, _load(griffe, os.path.join(d, "base")), _load(griffe, os.path.join(d, "new")))
    return [(k, s, None) for k, s in viols]
