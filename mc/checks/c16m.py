"""C16, family M — the same clauses when objects MOVE: detached sub-trees re-attached elsewhere, trees built bottom-up.

The main family (c16.py) only ever inserts fresh objects.  Here a fixed cast of objects is detached and attached again:

  collection: m (m.py): f (function), C (class: g function, a alias -> "m.f"), sub (module m/sub.py: h function, b alias -> "m.f"); n (n.py)
  variant "stubs": m.sub is a stubs module (m/sub.pyi) and there is a top-level module `sub` (sub.py) with an alias b -> "m.f" of its own

Operations (each on the real objects and on a dict model in lock-step):
  del X          delete the object X where it currently is (del_member / __delitem__; name on its container, dotted / tuple on the collection)
  put X into D   insert the DETACHED object X under its own name into D (m, n, C, the collection; D may itself be detached: bottom-up building)
                 — over an occupant of the same name if there is one (set_member: followers of the occupant must follow)
  touch A        read alias.target (lazy resolution through the collection)
  replace-f      set_member("f", <fresh function>) on the module that holds f
  build D form   a fresh class K with an alias member a2 (given by path / born resolved over the object at m.f) attached to D afterwards
  alias-over-sub m.set_member("sub", Alias("sub", "n"))
  new-stub       (plain variant) m.set_member("sub", <fresh stubs module m/sub.pyi with a function h2 and an alias b born resolved over m.f>): merged
                 into the regular module, which stays; its own resolved alias b must stay listed
  new-sub        (stubs variant) m.set_member("sub", <fresh regular module m/sub.py>): the stubs are merged into it

Invariants, evaluated on everything reachable from the collection, in every state (only clauses of the property text):
  M1 every member's parent is its container (None for a module of the collection)
  M2 the collection returns the object for the object's own path (get_member and []), dotted = tuple = chained
  M3 the tree (names and identities) is the model's: deleted members are gone, moved ones are where they were put
  M4 every resolved alias is listed among its target's aliases under its current path
  M5 aliases that reached a member replaced through set_member reach the replacement
  M7 an alias that left the tree through a deletion (alone or inside what was deleted) is not listed by any object of the tree, until it is put back
"""
from __future__ import annotations

import hashlib
from pathlib import Path

from mc.core import boot, sandbox

KEYFORMS = ("name", "dotted", "tuple")
MOVABLE = ("F", "C", "A", "S", "B", "K")
DESTS = {"F": ("M", "N"), "C": ("M", "N"), "A": ("C", "M"), "S": ("M", "N", "TOP"), "B": ("S", "N"), "K": ("M", "N")}
NAMES = {"M": "m", "N": "n", "F": "f", "C": "C", "G": "g", "A": "a", "S": "sub", "H": "h", "B": "b", "T": "sub", "TB": "b",
         "F2": "f", "K": "K", "KA": "a2", "SA": "sub", "S2": "sub", "S3": "sub", "S3B": "b", "H2": "h2", "AC": "ac", "D": "D", "Z": "z"}
ALIASES = ("A", "B", "TB", "KA", "SA", "S3B", "AC")


def _ops():
    ops = [("variant", "plain"), ("variant", "stubs")]
    for x in MOVABLE:
        for api in ("del_member", "delitem"):
            for kf in KEYFORMS:
                ops.append(("del", x, api, kf))
        for d in DESTS[x]:
            for api in ("set_member", "setitem"):
                for kf in KEYFORMS:
                    if d == "TOP" and kf != "name":
                        continue
                    ops.append(("put", x, d, api, kf))
    for a in ("A", "B", "TB", "KA"):
        ops.append(("touch", a))
    ops.append(("replace-f",))
    for d in ("M", "N"):
        for form in ("path", "object"):
            ops.append(("build", d, form))
    ops.append(("alias-over-sub",))
    ops.append(("new-sub",))
    ops.append(("new-stub",))
    for kf in ("on-alias", "dotted", "tuple"):
        ops.append(("del-via-alias", "del_member", kf))
        ops.append(("del-via-alias", "delitem", kf))
        ops.append(("set-via-alias", "set_member", kf))
        ops.append(("set-via-alias", "setitem", kf))
    ops.append(("del-inherited",))
    return ops


OPS = _ops()


def ops_for(tier):
    return OPS


def _root_histories(tier):
    i = OPS.index
    return [(i(("variant", "plain")),), (i(("variant", "plain")), i(("touch", "A")), i(("touch", "B"))),
            (i(("variant", "stubs")), i(("touch", "B")), i(("touch", "TB")))]


def root_len(hist, tier):
    for r in sorted(_root_histories(tier), key=len, reverse=True):
        if tuple(hist[: len(r)]) == r:
            return len(r)
    return 0


def describe(hist, tier):
    return ["M: " + " ".join(map(str, OPS[i])) for i in hist]


class World:
    """Real objects by label + the model: where[label] = container label | "TOP" | None (detached); members[label] = {name: label}."""

    def __init__(self):
        import griffe

        self.g = griffe
        self.coll = griffe.ModulesCollection()
        self.objs: dict[str, object] = {}
        self.where: dict[str, object] = {}
        self.members: dict[str, dict] = {"TOP": {}}
        self.target: dict[str, object] = {}  # alias label -> target label | None
        self.variant = None
        self.gone: set[str] = set()  # labels that can never come back (merged away / displaced fresh objects)
        self.deleted_aliases: set[str] = set()  # aliases that left the tree through a deletion (alone or inside what was deleted) and were not put back since

    def container_obj(self, label):
        return self.coll if label == "TOP" else self.objs[label]

    def new(self, label, kind, **kw):
        g = self.g
        name = NAMES[label]
        if kind == "module":
            o = g.Module(name, filepath=Path(kw["file"]))
        elif kind == "class":
            o = g.Class(name)
        elif kind == "function":
            o = g.Function(name)
        else:
            o = g.Alias(name, kw["target"])
            self.target[label] = kw.get("resolved_to")
        self.objs[label] = o
        self.where[label] = None
        if kind != "alias":
            self.members[label] = {}
        return o

    def attach(self, label, dest):
        """Plain top-down construction step used for the roots (set_member with the name on the container)."""
        self.container_obj(dest).set_member(NAMES[label], self.objs[label])
        self.m_put(label, dest)

    def m_put(self, label, dest):
        self.members[dest][NAMES[label]] = label
        self.where[label] = dest

    def m_path(self, label):
        """Model path of a label, or None when it is not reachable from the collection."""
        parts = []
        cur = label
        while cur != "TOP":
            w = self.where.get(cur)
            if w is None:
                return None
            parts.append(NAMES[cur])
            cur = w
        return ".".join(reversed(parts))

    def m_at(self, path):
        cur = "TOP"
        for p in path.split("."):
            if cur not in self.members or p not in self.members[cur]:
                return None
            cur = self.members[cur][p]
        return cur

    def build_root(self, variant):
        self.variant = variant
        self.new("M", "module", file="m.py")
        self.new("N", "module", file="n.py")
        self.attach("M", "TOP")
        self.attach("N", "TOP")
        self.new("F", "function")
        self.attach("F", "M")
        self.new("C", "class")
        self.attach("C", "M")
        self.new("G", "function")
        self.attach("G", "C")
        self.new("A", "alias", target="m.f")
        self.attach("A", "C")
        self.new("S", "module", file="m/sub.pyi" if variant == "stubs" else "m/sub.py")
        self.attach("S", "M")
        self.new("H", "function")
        self.attach("H", "S")
        self.new("B", "alias", target="m.f")
        self.attach("B", "S")
        # an alias to the class and a class inheriting from it, both in n: members of C are also visible as n.ac.<x> and n.D.<x>
        self.new("AC", "alias", target="m.C")
        self.attach("AC", "N")
        self.objs["D"] = self.g.Class("D", bases=["m.C"])
        self.where["D"] = None
        self.members["D"] = {}
        self.attach("D", "N")
        if variant == "stubs":
            self.new("T", "module", file="sub.py")
            self.attach("T", "TOP")
            self.new("TB", "alias", target="m.f")
            self.attach("TB", "T")


def _outcome(exc):
    if exc is None:
        return "ok"
    n = type(exc).__name__
    return n if n in ("KeyError", "AliasResolutionError", "CyclicAliasError") else "RAISE:" + n


def _call(fn):
    try:
        fn()
        return None
    except Exception as e:  # noqa: BLE001
        return e


def apply(w: World, op):
    """-> (impl outcome, model outcome, enabled, violations)"""
    kind = op[0]
    viols = []
    if kind == "variant":
        if w.variant is not None:
            return None, None, False, []
        w.build_root(op[1])
        return "ok", "ok", True, []
    if w.variant is None:
        return None, None, False, []
    if kind == "del":
        _, x, api, kf = op
        if x not in w.objs or x in w.gone or w.where.get(x) is None:
            return None, None, False, []
        cont = w.where[x]
        path = w.m_path(x)
        name = NAMES[x]
        if kf == "name" or path is None:
            if kf != "name":
                return None, None, False, []  # the container is detached: only reachable through the container object itself
            recv, key = w.container_obj(cont), name
        else:
            recv, key = w.coll, (path if kf == "dotted" else tuple(path.split(".")))
        if "." not in (path or "x.y") and kf == "dotted":
            return None, None, False, []
        exc = _call((lambda: recv.del_member(key)) if api == "del_member" else (lambda: recv.__delitem__(key)))
        # model
        was_in_tree = path is not None
        del w.members[cont][name]
        w.where[x] = None
        if was_in_tree:
            w.deleted_aliases |= _aliases_under(w, x)
        return _outcome(exc), "ok", True, viols
    if kind == "put":
        _, x, d, api, kf = op
        if x not in w.objs or x in w.gone or w.where.get(x) is not None:
            return None, None, False, []
        if d != "TOP" and (d not in w.objs or d in w.gone):
            return None, None, False, []
        if d == "TOP" and w.variant == "stubs":
            return None, None, False, []
        name = NAMES[x]
        # no container inside itself
        cur = d
        while cur not in ("TOP", None):
            if cur == x:
                return None, None, False, []
            cur = w.where.get(cur)
        dpath = "" if d == "TOP" else w.m_path(d)
        if kf == "name" or dpath is None:
            if kf != "name":
                return None, None, False, []
            recv, key = w.container_obj(d), name
        else:
            full = f"{dpath}.{name}"
            recv, key = w.coll, (full if kf == "dotted" else tuple(full.split(".")))
        occupant = w.members[d].get(name)
        if occupant is not None and (occupant in ALIASES or w.objs[occupant].is_alias or x in ALIASES or x == "S" or occupant in ("S", "S2", "T")):
            return None, None, False, []  # only plain objects displace plain objects here (modules would be merged, aliases are the main family's business)
        value = w.objs[x]
        exc = _call((lambda: recv.set_member(key, value)) if api == "set_member" else (lambda: recv.__setitem__(key, value)))
        if occupant is not None:
            w.where[occupant] = None
            w.gone.add(occupant) if occupant in ("F2",) else None
            if api == "set_member":
                for a, t in w.target.items():
                    if t == occupant and w.m_path(a) is not None:
                        w.target[a] = x
                        viols_follow = _follow_check(w, a, x, f"put-{x}-over-{occupant}")
                        viols.extend(viols_follow)
                    elif t == occupant and w.objs[a]._target is value:
                        w.target[a] = x  # a detached alias is gone: nothing is promised about it, following is fine too
        w.m_put(x, d)
        w.deleted_aliases -= _aliases_under(w, x)
        return _outcome(exc), "ok", True, viols
    if kind == "touch":
        a = op[1]
        if a not in w.objs or w.m_path(a) is None:
            return None, None, False, []
        exc = _call(lambda: w.objs[a].target)
        if w.target[a] is not None:
            return _outcome(exc), "ok", True, viols
        t = w.m_at("m.f")
        if t is None:
            return _outcome(exc), "AliasResolutionError", True, viols
        if t in ALIASES:
            return None, None, False, []
        w.target[a] = t
        return _outcome(exc), "ok", True, viols
    if kind == "replace-f":
        if "F2" in w.objs:
            return None, None, False, []
        holder = next((c for c in ("M", "N") if w.members[c].get("f") == "F" and w.m_path(c) is not None), None)
        if holder is None:
            return None, None, False, []
        w.new("F2", "function")
        exc = _call(lambda: w.objs[holder].set_member("f", w.objs["F2"]))
        w.where["F"] = None
        w.m_put("F2", holder)
        for a, t in w.target.items():
            if t == "F" and w.m_path(a) is not None:
                w.target[a] = "F2"
                viols.extend(_follow_check(w, a, "F2", "replace-f"))
            elif t == "F" and w.objs[a]._target is w.objs["F2"]:
                w.target[a] = "F2"  # (detached alias: following is fine too)
        return _outcome(exc), "ok", True, viols
    if kind == "build":
        _, d, form = op
        if "K" in w.objs or w.m_path(d) is None:
            return None, None, False, []
        tl = w.m_at("m.f")
        if form == "object" and (tl is None or tl in ALIASES):
            return None, None, False, []
        w.new("K", "class")
        if form == "object":
            w.new("KA", "alias", target=w.objs[tl], resolved_to=tl)
        else:
            w.new("KA", "alias", target="m.f")
        exc = _call(lambda: w.objs["K"].set_member("a2", w.objs["KA"]))
        w.m_put("KA", "K")
        if exc is None:
            exc = _call(lambda: w.objs[d].set_member("K", w.objs["K"]))
        w.m_put("K", d)
        return _outcome(exc), "ok", True, viols
    if kind == "alias-over-sub":
        if "SA" in w.objs or w.members["M"].get("sub") != "S" or w.m_path("M") is None or w.variant != "plain":
            return None, None, False, []
        w.new("SA", "alias", target="n")
        exc = _call(lambda: w.objs["M"].set_member("sub", w.objs["SA"]))
        w.deleted_aliases |= _aliases_under(w, "S")
        w.where["S"] = None
        w.gone.add("S")  # (what became of the displaced module is not followed further)
        w.m_put("SA", "M")
        for a, t in w.target.items():
            if t == "S":
                w.target[a] = None
        return _outcome(exc), "ok", True, viols
    if kind == "new-sub":
        if w.variant != "stubs" or "S2" in w.objs or w.members["M"].get("sub") != "S" or w.m_path("M") is None:
            return None, None, False, []
        w.new("S2", "module", file="m/sub.py")
        exc = _call(lambda: w.objs["M"].set_member("sub", w.objs["S2"]))
        # the stubs are merged into the new regular module: their members move there
        for name, lab in list(w.members["S"].items()):
            w.members["S2"][name] = lab
            w.where[lab] = "S2"
        w.members["S"] = {}
        w.where["S"] = None
        w.gone.add("S")
        w.m_put("S2", "M")
        return _outcome(exc), "ok", True, viols
    if kind in ("del-via-alias", "set-via-alias"):
        _, api, kf = op
        # the alias n.ac must lead to the class C (already resolved to it, or resolvable now)
        if w.m_path("AC") is None or w.m_path("C") is None or not (w.target["AC"] == "C" or (w.target["AC"] is None and w.m_at("m.C") == "C")):
            return None, None, False, []
        name = "g" if kind == "del-via-alias" else "z"
        if kind == "del-via-alias" and w.members["C"].get("g") != "G":
            return None, None, False, []
        if kind == "set-via-alias" and "Z" in w.objs:
            return None, None, False, []
        recv, key = (w.objs["AC"], name) if kf == "on-alias" else (w.coll, f"n.ac.{name}" if kf == "dotted" else ("n", "ac", name))
        if kind == "del-via-alias":
            exc = _call((lambda: recv.del_member(key)) if api == "del_member" else (lambda: recv.__delitem__(key)))
            del w.members["C"]["g"]
            w.where["G"] = None
        else:
            w.new("Z", "function")
            exc = _call((lambda: recv.set_member(key, w.objs["Z"])) if api == "set_member" else (lambda: recv.__setitem__(key, w.objs["Z"])))
            w.m_put("Z", "C")
        w.target["AC"] = "C"
        return _outcome(exc), "ok", True, viols
    if kind == "del-inherited":
        # the consumer API: `del D["g"]` where g is inherited from C ("looked up in both declared members and inherited ones")
        if w.m_path("D") is None or w.m_at("m.C") != "C" or w.members["C"].get("g") != "G":
            return None, None, False, []
        exc = _call(lambda: w.objs["D"].__delitem__("g"))
        still = _call(lambda: w.objs["D"]["g"]) is None
        if exc is None and still:
            viols.append(("M6-delete-lost/inherited", "del D['g'] (g inherited from m.C) returned normally, D['g'] still returns the member", None))
        # (computing the inherited members reads the members of C, which resolves the aliases among them if it can)
        for a, holder in (("A", "C"),):
            if w.where.get(a) == holder and w.target[a] is None and w.objs[a]._target is not None and _lab(w, w.objs[a]._target) == w.m_at("m.f"):
                w.target[a] = w.m_at("m.f")
        if exc is None and "g" not in w.objs["C"].members:
            del w.members["C"]["g"]  # deleted where it is declared: one way of making it go away
            w.where["G"] = None
        return "ok", "ok", True, viols
    if kind == "new-stub":
        tl = w.m_at("m.f")
        if w.variant != "plain" or "S3" in w.objs or w.members["M"].get("sub") != "S" or w.m_path("M") is None or tl is None or tl in ALIASES:
            return None, None, False, []
        w.new("S3", "module", file="m/sub.pyi")
        w.new("H2", "function")
        w.objs["S3"].set_member("h2", w.objs["H2"])
        w.new("S3B", "alias", target=w.objs[tl], resolved_to=tl)
        w.objs["S3"].set_member("b", w.objs["S3B"])
        had_b = "b" in w.members["S"]
        exc = _call(lambda: w.objs["M"].set_member("sub", w.objs["S3"]))
        # merged into the regular module: h2 moves there, the alias b only if the module has none
        w.members["S"]["h2"] = "H2"
        w.where["H2"] = "S"
        if not had_b:
            w.members["S"]["b"] = "S3B"
            w.where["S3B"] = "S"
        else:
            w.deleted_aliases.add("S3B")  # left behind in the stubs module that goes away
        w.where["S3"] = None
        w.gone.add("S3")
        return _outcome(exc), "ok", True, viols
    raise AssertionError(op)


def _aliases_under(w, label):
    if label in w.target:
        return {label}
    out = set()
    for sub in w.members.get(label, {}).values():
        out |= _aliases_under(w, sub)
    return out


def _follow_check(w, a, new_label, tag):
    alias = w.objs[a]
    if alias._target is not w.objs[new_label]:
        return [(f"M5-follow/{tag}", f"alias {a} reached the replaced member but does not reach the replacement {new_label} (target: {_lab(w, alias._target)})", None)]
    return []


def _lab(w, obj):
    for k, v in w.objs.items():
        if v is obj:
            return k
    return "?" if obj is not None else None


def check_state(w: World):
    """-> [(key, subject, summary)]"""
    out = []
    if w.variant is None:
        return out
    coll = w.coll

    def walk(cont_label, cont_obj, prefix):
        names_model = w.members[cont_label]
        try:
            names_impl = dict(cont_obj.members)
        except Exception as e:  # noqa: BLE001
            out.append((f"raise/{type(e).__name__}@members", cont_label, f"members of {cont_label} raised {e!r}"))
            return
        if set(names_impl) != set(names_model):
            out.append(("M3-tree/names", cont_label, f"{prefix or 'collection'} has members {sorted(names_impl)}, the model {sorted(names_model)}"))
        for name, lab in names_model.items():
            o = names_impl.get(name)
            path = prefix + name
            if o is None:
                continue
            if o is not w.objs[lab]:
                out.append(("M3-tree/identity", path, f"{path} is {_lab(w, o)}, the model has {lab}"))
                continue
            # M1
            want_parent = None if cont_label == "TOP" else cont_obj
            if o.parent is not want_parent:
                out.append((f"M1-parent/{'top-level' if cont_label == 'TOP' else 'member'}", path,
                            f"{path}.parent is {_lab(w, o.parent)} (path {getattr(o.parent, 'path', None)!r}), its container is {cont_label}"))
            # M2
            try:
                own = o.path
                got = []
                for how, fn in (("get_member", lambda p: coll.get_member(p)), ("getitem", lambda p: coll[p])):
                    try:
                        got.append((how, fn(own)))
                    except Exception as e:  # noqa: BLE001
                        got.append((how, e))
                for how, r in got:
                    if r is not o:
                        out.append((f"M2-own-path/{how}", path, f"the object at {path} says its path is {own!r}; collection.{how} of that gives {_lab(w, r) if not isinstance(r, Exception) else repr(r)}"))
                chained = coll
                for p in path.split("."):
                    chained = chained[p]
                if not (coll.get_member(path) is coll.get_member(tuple(path.split("."))) is chained is o):
                    out.append(("M2-dotted-vs-chained", path, f"dotted / tuple / chained lookup of {path} differ"))
            except Exception as e:  # noqa: BLE001
                out.append((f"M2-lookup-raises/{type(e).__name__}", path, f"looking {path} up raised {e!r}"))
            if lab in w.target or o.is_alias:
                # M4 (passively: nothing here triggers a resolution)
                t = o._target
                mt = w.target.get(lab)
                if (t is None) != (mt is None) or (t is not None and t is not w.objs.get(mt)):
                    out.append(("M3-alias-target", path, f"alias {path}: resolved to {_lab(w, t)}, the model says {mt}"))
                if t is not None and not t.is_alias:
                    listed = t.aliases.get(path)
                    if listed is not o:
                        keys = sorted(k for k, v in t.aliases.items() if v is o)
                        out.append((f"M4-not-listed/{'other-alias-there' if listed is not None else 'listed-under-' + ('nothing' if not keys else 'old-path')}", path,
                                    f"resolved alias {path} -> {_lab(w, t)} is not in its target's aliases under {path!r} (there: {_lab(w, listed)}; this alias is listed under {keys})"))
            elif lab in w.members:
                walk(lab, o, path + ".")

    walk("TOP", coll, "")
    # M7 ("deleted members are gone"): an alias that left the tree through a deletion is not listed by any object of the tree any more
    for lab in w.deleted_aliases:
        al = w.objs[lab]
        for olab, o in w.objs.items():
            if olab in w.target or getattr(o, "is_alias", False) or w.m_path(olab) is None:
                continue
            keys = sorted(k for k, v in o.aliases.items() if v is al)
            if keys:
                out.append(("M7-deleted-alias-listed", f"{lab}@{olab}", f"the deleted alias {lab} is still listed by {w.m_path(olab)} (under {keys})"))
    return out


def canon(w: World):
    if w.variant is None:
        return ("empty",)
    tree = []

    def rec(cont, prefix):
        for name, lab in sorted(w.members.get(cont, {}).items()):
            tree.append((prefix + name, lab))
            if lab in w.members:
                rec(lab, prefix + name + ".")

    rec("TOP", "")
    detached = []
    for lab in sorted(w.objs):
        if w.where.get(lab) is None and lab not in ("M", "N") and lab not in w.gone:
            sub = []

            def rec2(cont, prefix):
                for name, l2 in sorted(w.members.get(cont, {}).items()):
                    sub.append((prefix + name, l2))
                    if l2 in w.members:
                        rec2(l2, prefix + name + ".")

            rec2(lab, "")
            detached.append((lab, tuple(sub)))
    al = []
    for lab in sorted(w.objs):
        o = w.objs[lab]
        if o.is_alias:
            al.append((lab, _lab(w, o._target), _lab(w, o._parent)))
        else:
            al.append((lab, tuple(sorted((k, _lab(w, v)) for k, v in o.aliases.items())), _lab(w, o.parent)))
    return (w.variant, tuple(tree), tuple(detached), tuple(al), tuple(sorted(w.gone)), tuple(sorted(w.deleted_aliases)))


def _digest(c) -> bytes:
    return hashlib.blake2b(repr(c).encode(), digest_size=12).digest()


def _replay(hist):
    w = World()
    for i in hist:
        apply(w, OPS[i])
    return w


def digest_of(hist, tier):
    boot.boot()
    return _digest(canon(_replay(hist)))


def _tag(op):
    if op[0] == "del":
        return f"del-{op[1]}/{op[2]}/{op[3]}"
    if op[0] == "put":
        return f"put-{op[1]}-into-{op[2]}/{op[3]}/{op[4]}"
    return "-".join(map(str, op))


def _transition(hist, op, pre=None):
    if pre is None:
        pre = {(k, s) for k, s, _ in check_state(_replay(hist))}
    w = _replay(hist)
    i_out, m_out, enabled, viols = apply(w, op)
    if not enabled:
        return None
    tag = _tag(op)
    out = list(viols)
    if i_out != m_out:
        out.append((f"M-outcome/{tag}/{m_out}->{i_out}", f"{' '.join(map(str, op))}: expected {m_out}, the implementation gives {i_out}", None))
    for k, subj, summary in check_state(w):
        if (k, subj) not in pre:
            out.append((f"{k}/after-{tag}", summary, None))
    return i_out, out, w


def expand(hist, tier):
    w0 = _replay(hist)
    pre = {(k, s) for k, s, _ in check_state(w0)}
    out = []
    for oi, op in enumerate(OPS):
        try:
            with sandbox.time_limit(20):
                r = _transition(hist, op, pre)
        except sandbox.CaseTimeout:
            out.append((oi, "hang", "HANG:" + repr((hist, oi)), [(f"hang/{_tag(op)}", f"{' '.join(map(str, op))}: no answer within 20 s", None)], False))
            continue
        if r is None:
            continue
        i_out, viols, w = r
        out.append((oi, i_out, _digest(canon(w)), viols, True))
    return out


DEPTH = {"quick": 4, "thorough": 7}


def replay_case(case):
    boot.boot()
    text = {"M: " + " ".join(map(str, o)): i for i, o in enumerate(OPS)}
    hist = tuple(text[t] for t in case["history"])
    r = _transition(hist[:-1], OPS[hist[-1]])
    return [] if r is None else r[1]
