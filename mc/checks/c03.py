"""C03 — Stored expressions render back to equivalent Python code.

Space: every expression tree of depth <= 2 over one template per mapped ast node/operator/shape (every (parent, operand slot,
child) triple), thorough adds depth 3 and sibling pairs over the grouping-sensitive subset; each planted in all 7 storage
slots (attribute value / annotation, parameter default / annotation, return annotation, decorator, base class).
Oracle: ast equality of str(expr) with the source expression (parentheses / literal spelling immaterial), non-flat iteration
rebuilds the same string, every loaded name is an ExprName whose canonical_path does not raise; plus the string-annotation rule.

Attribution by minimality (the enumeration is closed under sub-expressions): a failing tree is first re-judged with every
independently failing child replaced by a fresh name; what still fails is attributed to the root template alone
(`render/<template>/<symptom>`) or to a (parent slot, child) pair (`parens/<Parent>.<slot>/<Child>` when only the grouping
was lost, `pair/...` otherwise).
"""
from __future__ import annotations

import ast
import collections
import re
from pathlib import Path

from mc.core import boot
from mc.core.driver import Acc
from mc.gen import exprs as X

PROPERTY = "C03"
LEVEL = "exploration"
NSHARDS = 64
RULE = (
    "every expression tree generated from the template table up to the depth bound, each planted in 7 storage slots of one module; "
    "non-trivial = the tree has at least one operator/container node (not a bare leaf); distinct by construction (trees are distinct)"
)
ASSUMPTIONS = ["CPython 3.12 ast.parse/ast.unparse define 'the same syntax tree' and where parentheses are required",
               "identifiers a,b,c,d,t,u,p,q,k,attr and literals listed in mc/gen/exprs.py stand for all others"]
MANIFEST = {
    "category": "exploration",
    "text": "Bounded exhaustive enumeration of expression trees (all parent/slot/child triples at depth 2; depth 3 and sibling pairs over the grouping-sensitive subset in the thorough tier) through the real visitor into all seven storage slots; str(), iteration and name resolution judged against CPython's own parser. String-annotation parsing rule enumerated over slots (eight, class decorators included) x future-import x Literal contexts; the same annotation text in two scopes and the same module path loaded twice. The string rule also covers strings that are keywords or constant names, and the name elements of every parsed string are compared with the names the expression references. The string rule also covers the VALUE of annotated assignments (explicit type aliases); a chain-resolution family checks that every name element of dotted chains of two to four names (every slot) resolves through the name before it.",
    "note": "CPython's ast is the oracle; complete for the template alphabet and depth stated; deeper nesting is not covered.",
    "technique": "model checking by exhaustive small-scope enumeration of expression trees on the real visitor, CPython ast as oracle",
}

SLOTS = ["value", "annotation", "param-default", "param-annotation", "returns", "decorator", "base", "class-decorator"]
ANN_SLOTS = {"annotation", "param-annotation", "returns"}


def bounds(tier):
    return {"templates": len(X.TEMPLATES), "depth": 2 if tier == "quick" else 3, "sensitive_subset": X.SENSITIVE if tier == "thorough" else [],
            "slots": SLOTS, "leaves": X.NAME_LEAVES + X.OTHER_LEAVES + X.LITERALS}


def shards(tier):
    return list(range(NSHARDS))


def _module_for(expr_text, slots):
    e = "(" + expr_text + ")"
    lines = []
    if "value" in slots:
        lines.append(f"x = {e}")
    if "annotation" in slots:
        lines.append(f"y: {e} = 0")
    pa = f": {e}" if "param-annotation" in slots else ""
    pd = f" = {e}" if "param-default" in slots else ""
    rt = f" -> {e}" if "returns" in slots else ""
    if pa or pd or rt:
        lines.append(f"def f(p{pa}{pd}){rt}: ...")
    if "decorator" in slots:
        lines.append(f"@{e}\ndef g(): ...")
    if "base" in slots:
        lines.append(f"class K({e}): ...")
    if "class-decorator" in slots:
        lines.append(f"@{e}\nclass KD: ...")
    return "\n".join(lines) + "\n"


def _stored(mod, slot):
    if slot in ("typealias-value", "annotated-value"):
        return mod.members["ta" if slot == "typealias-value" else "av"].value
    if slot == "value":
        return mod.members["x"].value
    if slot == "annotation":
        return mod.members["y"].annotation
    if slot == "param-default":
        return mod.members["f"].parameters["p"].default
    if slot == "param-annotation":
        return mod.members["f"].parameters["p"].annotation
    if slot == "returns":
        return mod.members["f"].returns
    if slot == "decorator":
        d = mod.members["g"].decorators
        return d[0].value if d else None
    if slot == "base":
        b = mod.members["K"].bases
        return b[0] if b else None
    if slot == "class-decorator":
        d = mod.members["KD"].decorators
        return d[0].value if d else None
    raise AssertionError(slot)


class _FlattenBoolOp(ast.NodeTransformer):
    """`(a and b) and c` and `a and b and c` are the same expression: those parentheses are redundant."""

    def visit_BoolOp(self, node):
        self.generic_visit(node)
        vals = []
        for v in node.values:
            if isinstance(v, ast.BoolOp) and type(v.op) is type(node.op):
                vals.extend(v.values)
            else:
                vals.append(v)
        node.values = vals
        return node


def _dump(node):
    return ast.dump(node, annotate_fields=True, include_attributes=False)


def _same(a, b):
    if _dump(a) == _dump(b):
        return True
    import copy

    return _dump(_FlattenBoolOp().visit(copy.deepcopy(a))) == _dump(_FlattenBoolOp().visit(copy.deepcopy(b)))


_STRIP = re.compile(r"[()\s]")


def _rebuild(e):
    """Non-flat recursive iteration."""
    if isinstance(e, str):
        return e
    if type(e).__name__ == "ExprName":
        return e.name
    return "".join(_rebuild(x) for x in e.iterate(flat=False))


def _judge_expr(griffe, stored, src_node, has_unmapped):
    """-> (symptom, got text) or None"""
    if stored is None:
        return None if has_unmapped else ("dropped", None)
    s = str(stored)
    src_text = ast.unparse(src_node)
    only_grouping = _STRIP.sub("", s) == _STRIP.sub("", src_text)
    try:
        got = ast.parse(s, mode="eval").body
    except SyntaxError:
        got = None
        if isinstance(src_node, (ast.Yield, ast.YieldFrom)):
            # a bare yield is valid Python as an expression statement / assignment value, which is how it is stored
            try:
                got = ast.parse(s).body[0].value
            except (SyntaxError, IndexError, AttributeError):
                got = None
        if got is None:
            return ("parens" if only_grouping else "syntax", s)
    if not _same(got, src_node):
        return ("parens" if only_grouping else "different", s)
    if isinstance(stored, str):
        return None
    flat = "".join(x if isinstance(x, str) else x.name for x in stored.iterate(flat=True))
    if flat != s or _rebuild(stored) != s:
        return ("iterate", s)
    names = collections.Counter(n.id for n in ast.walk(src_node) if isinstance(n, ast.Name) and isinstance(n.ctx, ast.Load))
    have = collections.Counter(x.name for x in stored.iterate(flat=True) if not isinstance(x, str))
    if names - have:
        return ("names", s + " lacks " + ",".join(sorted((names - have))))
    for x in stored.iterate(flat=True):
        if not isinstance(x, str):
            try:
                x.canonical_path
            except Exception as ex:  # noqa: BLE001
                return ("canonical-" + type(ex).__name__, s)
    return None


def _has_str(node):
    return any(isinstance(n, ast.Constant) and isinstance(n.value, str) for n in ast.walk(node))


def _has_unmapped(node):
    return any(isinstance(n, ast.Await) for n in ast.walk(node))


_cache: dict = {}


def fails(griffe, tree, slots=("value",)):
    """slot -> (symptom, got)"""
    key = (tree, tuple(slots))
    if key in _cache:
        return _cache[key]
    txt = X.text(tree)
    src = _module_for(txt, slots)
    out = {}
    try:
        mod = griffe.visit("m", filepath=Path("m.py"), code=src)
    except Exception as ex:  # noqa: BLE001
        out = {s: ("raise-" + type(ex).__name__, repr(ex)) for s in slots}
        _cache[key] = out
        return out
    node = ast.parse(txt, mode="eval").body
    unm = _has_unmapped(node)
    for s in slots:
        try:
            r = _judge_expr(griffe, _stored(mod, s), node, unm)
        except Exception as ex:  # noqa: BLE001
            r = ("raise-" + type(ex).__name__, repr(ex))
        if r:
            out[s] = r
    if len(_cache) > 20000:
        _cache.clear()
    _cache[key] = out
    return out


def _fam(sym):
    return "parens" if sym == "parens" else f"pair-{sym}"


def _slotnames(ti):
    return [n.rstrip("0123456789") for n in X.TEMPLATES[ti][2]]  # values0/values1 are one operand list


def _only_child(tree, i, child=None):
    """Root with child i kept (or replaced by `child`) and every other non-leaf child replaced by a fresh name."""
    ti, kids = tree
    out = tree
    for j, k in enumerate(kids):
        if j == i:
            if child is not None:
                out = X.replace_child(out, j, child)
        elif not X.is_leaf(k):
            out = X.replace_child(out, j, f"n{j}")
    return out


def attribute(griffe, tree, sym):
    """Return list of (key, minimal tree) explaining why `tree` fails with `sym` in the value slot."""
    if X.is_leaf(tree):
        return [(f"render/leaf/{sym}", tree)]
    ti, kids = tree
    if X.TEMPLATES[ti][1] == "JoinedStr":
        got = fails(griffe, tree).get("value")

        def _has(t, cls):
            return (not X.is_leaf(t)) and (X.cls_of(t) == cls or any(_has(k, cls) for k in t[1]))

        if got and got[1] and any(_has(k, "JoinedStr") for k in kids):
            # an f-string nested anywhere inside a replacement field is re-quoted wrongly; one root cause
            return [("fstring/nested", tree)]
        if got and got[1] and "{{" in got[1] and "{{" not in X.text(tree):
            # a replacement field whose expression starts with '{' needs a separating space; one root cause whatever
            # the expression below looks like
            return [("fstring/brace-adjacent", tree)]
        if got and got[0] == "parens" and any(_has(k, "Lambda") for k in kids):
            # a lambda inside a replacement field must keep its parentheses (':' would start the format spec)
            return [("fstring/lambda-colon", tree)]
    # 1. neutralise children that fail on their own (their own cases report them)
    t2 = tree
    for i, k in enumerate(kids):
        if not X.is_leaf(k) and fails(griffe, k).get("value"):
            t2 = X.replace_child(t2, i, f"n{i}")
    if t2 != tree:
        r = fails(griffe, t2).get("value")
        if not r:
            return []
        tree, sym = t2, r[0]
        ti, kids = tree
    nonleaf = [i for i, k in enumerate(kids) if not X.is_leaf(k)]
    tname, tcls = X.TEMPLATES[ti][0], X.TEMPLATES[ti][1]
    slotnames = _slotnames(ti)
    if not nonleaf:
        return [(f"render/{tname}/{sym}", tree)]
    # 2. the root alone (all operands plain names)
    root_only = _only_child(tree, -1)
    r0 = fails(griffe, root_only).get("value")
    if r0:
        return [(f"render/{tname}/{r0[0]}", root_only)]
    # 3. one child at a time
    out = []
    for i in nonleaf:
        t_i = _only_child(tree, i)
        r = fails(griffe, t_i).get("value")
        if not r:
            continue
        child = kids[i]
        small = _only_child(tree, i, X.depth1(child[0]))
        rs = fails(griffe, small).get("value")
        if rs:
            out.append((f"{_fam(rs[0])}/{tcls}.{slotnames[i]}/{X.cls_of(child)}", small))
            continue
        # the child's own operands matter: chain parent <- child <- grandchild
        ci, ckids = child
        found = False
        for j, gk in enumerate(ckids):
            if X.is_leaf(gk):
                continue
            mid = _only_child(child, j, X.depth1(gk[0]))
            t_ij = _only_child(tree, i, mid)
            rij = fails(griffe, t_ij).get("value")
            if rij:
                found = True
                out.append((f"chain-{rij[0]}/{tcls}.{slotnames[i]}/{X.cls_of(child)}.{_slotnames(ci)[j]}/{X.cls_of(gk)}", t_ij))
        if not found:
            out.append((f"{_fam(r[0])}/{tcls}.{slotnames[i]}/{X.cls_of(child)}/deep", t_i))
    if not out:
        out.append((f"combo-{sym}/{tname}/" + "+".join(sorted(X.cls_of(kids[i]) for i in nonleaf)), tree))
    return out


def _run_tree(griffe, acc, tree):
    txt = X.text(tree)
    node = ast.parse(txt, mode="eval").body
    slots = [s for s in SLOTS if not (s in ANN_SLOTS and _has_str(node))]
    res = fails(griffe, tree, tuple(slots))
    outcome = "ok" if not res else "fail:" + ",".join(sorted({v[0] for v in res.values()}))
    if _has_unmapped(node):
        outcome = "unmapped-" + outcome
    acc.case({"expr": txt, "slots": len(slots)}, outcome=outcome, nontrivial=not X.is_leaf(tree))
    acc.observe({s: v for s, v in res.items()})
    if not res:
        return
    # slot-independent failures are attributed once, through the value slot
    vres = res.get("value") or fails(griffe, tree).get("value")
    if vres:
        for key, small in attribute(griffe, tree, vres[0]):
            st = X.text(small)
            got = fails(griffe, small).get("value")
            acc.violation(key, f"{st!r} is stored as {got[1]!r}" if got else f"{st!r} fails inside {txt!r}", {"expr": st, "tree": small, "slot": "value"},
                          {"first_seen_in": txt, "symptom": got[0] if got else vres[0]}, size=X.size(small))
    # failures specific to other slots
    for s, (sym, got) in res.items():
        if s == "value":
            continue
        if vres and vres[0] == sym:
            continue
        acc.violation(f"slot/{s}/{X.name_of(tree)}/{sym}", f"in slot {s}: {txt!r} is stored as {got!r}", {"expr": txt, "tree": tree, "slot": s}, {"symptom": sym}, size=X.size(tree) + 1)


# ---------------------------------------------------------------------------------------------------------------
# string-annotation rule

STR_CASES = [
    # (annotation source, expected-when-parsed, needs)
    ('"a.b"', "a.b"),
    ('"list[a]"', "list[a]"),
    ('list["a"]', "list[a]"),
    ('Literal["a"]', 'Literal["a"]'),
    ('typing.Literal["a", "b"]', 'typing.Literal["a", "b"]'),
    ('typing_extensions.Literal["a"]', 'typing_extensions.Literal["a"]'),
    ('Optional["a"]', "Optional[a]"),
    ('"\'a\'"', "'a'"),
    ('dict[Literal["k"], "v"]', 'dict[Literal["k"], v]'),
    ('"a" | None', "a | None"),
    ('"not valid("', '"not valid("'),
    ('Annotated["a", "meta b"]', None),  # unspecified by the property (second argument is arbitrary metadata): not judged
    ('Literal["a"] | "b"', 'Literal["a"] | b'),
    ('tuple["a", ...]', "tuple[a, ...]"),
    # strings whose whole text is a keyword (not an expression: they stay strings) or the name of a constant (code, but no name is referenced)
    ('"in"', '"in"'), ('"class"', '"class"'), ('list["or"]', 'list["or"]'), ('Annotated[a, "in"]', 'Annotated[a, "in"]'),
    ('"None"', "None"), ('"True"', "True"), ('Optional["None"]', "Optional[None]"), ('dict["a", "None"]', "dict[a, None]"), ('"..."', "..."),
]
STR_HEAD = ("import typing, typing_extensions\nimport typing as t\nimport typing_extensions as te\nfrom typing import Literal, Optional, Annotated, TypeAlias\n"
            "from typing import Literal as L\nfrom typing_extensions import Literal as TL\n")
# Literal under every way of binding it x the places a string can stand relative to it
LIT_SPELLINGS = ["Literal", "typing.Literal", "t.Literal", "L", "typing_extensions.Literal", "te.Literal", "TL"]
LIT_CONTEXTS = [('{L}["a"]', '{L}["a"]'), ('{L}["a", "b"]', '{L}["a", "b"]'), ('list[{L}["a"]]', 'list[{L}["a"]]'), ('dict[{L}["k"], "v"]', 'dict[{L}["k"], v]'),
                ('{L}["a"] | "b"', '{L}["a"] | b'), ('Optional[{L}["a"]]', 'Optional[{L}["a"]]'), ('list["a"] | {L}["b"]', 'list[a] | {L}["b"]'),
                ('{L}[{L}["a"], "b"]', '{L}[{L}["a"], "b"]'), ('"{L}[\'a\']"', "{L}['a']")]
STR_CASES = STR_CASES + [(a.replace("{L}", sp), b.replace("{L}", sp)) for sp in LIT_SPELLINGS for a, b in LIT_CONTEXTS]


def _run_strings(griffe, acc):
    for future in (False, True):
        head = ("from __future__ import annotations\n" if future else "") + STR_HEAD
        for src_ann, parsed in STR_CASES:
            if parsed is None:
                continue
            for slot in SLOTS + ["typealias-value", "annotated-value"]:
                body = {
                    # the VALUE of an annotated assignment is a value, whatever the annotation says (an explicit type alias, a plain annotation)
                    "typealias-value": f"ta: TypeAlias = {src_ann}", "annotated-value": f"av: typing.Any = {src_ann}",
                    "value": f"x = {src_ann}", "annotation": f"y: {src_ann} = 0", "param-default": f"def f(p={src_ann}): ...",
                    "param-annotation": f"def f(p: {src_ann}): ...", "returns": f"def f(p) -> {src_ann}: ...",
                    "decorator": f"@({src_ann})\ndef g(): ...", "base": f"class K({src_ann}): ...", "class-decorator": f"@({src_ann})\nclass KD: ...",
                }[slot]
                # the module on its own, and as a submodule of a package whose __init__ has the OPPOSITE setting (postponed evaluation is per module)
                for where in ("top-level", "in-package-with-opposite-setting"):
                    if where == "top-level":
                        mod = griffe.visit("m", filepath=Path("m.py"), code=head + body + "\n")
                    else:
                        if slot not in ANN_SLOTS:
                            continue
                        pkg = griffe.visit("pkg", filepath=Path("pkg/__init__.py"), code=("" if future else "from __future__ import annotations\n") + "z = 1\n")
                        mod = griffe.visit("m", filepath=Path("pkg/m.py"), code=head + body + "\n", parent=pkg)
                        pkg.set_member("m", mod)
                    stored = _stored(mod, slot)
                    expect_parsed = slot in ANN_SLOTS and not future
                    exp = parsed if expect_parsed else src_ann
                    case = {"annotation": src_ann, "slot": slot, "future": future, "where": where}
                    try:
                        ok = stored is not None and _same(ast.parse(str(stored), mode="eval").body, ast.parse(exp, mode="eval").body)
                    except SyntaxError:
                        ok = False  # (what is stored does not even render to Python)
                    if ok and not isinstance(stored, str):
                        # every referenced name is a name element -- and nothing else is (a constant or a string is not a name)
                        got_names = sorted(n.name for n in stored.iterate(flat=True) if type(n).__name__ == "ExprName")
                        exp_tree = ast.parse(exp, mode="eval")
                        want_names = sorted([n.id for n in ast.walk(exp_tree) if isinstance(n, ast.Name)] + [n.attr for n in ast.walk(exp_tree) if isinstance(n, ast.Attribute)])
                        if got_names != want_names:
                            acc.violation(f"strings/names/{slot}/{'future' if future else 'nofuture'}", f"{src_ann} in {slot}: name elements {got_names}, the expression references {want_names}", case)
                    acc.case(case, outcome=("parsed" if expect_parsed else "verbatim") + (":ok" if ok else ":bad"), nontrivial=True)
                    if not ok:
                        lit = "literal" if any(sp + "[" in src_ann for sp in LIT_SPELLINGS) else "plain"
                        acc.violation(f"strings/{slot}/{'future' if future else 'nofuture'}/{lit}" + ("" if where == "top-level" else "/submodule"), f"{src_ann} in {slot} ({'with' if future else 'without'} postponed evaluation, {where}) is stored as {str(stored)!r}, expected {exp!r}", case)


def _run_two_scopes(griffe, acc):
    """The same annotation TEXT (quoted or not) in two scopes of one load, and in two loads of one process: each occurrence is its own expression, whose names
    belong to the scope it was written in (and whose parsing follows the rule of the module it was written in)."""
    for ann, quoted in (("T", True), ("T", False), ("list[T]", True), ("T | None", True), ("dict[str, T]", False)):
        a = f'"{ann}"' if quoted else ann
        src = (f"class First:\n    class T: ...\n    q: {a} = None\n    def m(self, p: {a}) -> {a}: ...\n"
               f"class Second:\n    class T: ...\n    q: {a} = None\n    def m(self, p: {a}) -> {a}: ...\n")
        for future in (False, True):
            code = ("from __future__ import annotations\n" if future else "") + src
            mod = griffe.visit("two", filepath=Path("two.py"), code=code)
            case = {"family": "two-scopes", "annotation": a, "future": future}
            bad = []
            for cls in ("First", "Second"):
                for where, expr in (("attribute", mod[cls]["q"].annotation), ("parameter", mod[cls]["m"].parameters["p"].annotation), ("returns", mod[cls]["m"].returns)):
                    if future and quoted:
                        continue  # (stays a string: nothing to resolve)
                    names = [n.canonical_path for n in expr.iterate(flat=True) if type(n).__name__ == "ExprName" and n.name == "T"] if not isinstance(expr, str) else []
                    if names != [f"two.{cls}.T"]:
                        bad.append((cls, where, names))
            acc.case(case, outcome="two-scopes:" + ("ok" if not bad else "bad"), nontrivial=True)
            acc.observe(bad)
            if bad:
                acc.violation(f"scope/same-text-two-scopes/{'quoted' if quoted else 'plain'}/{bad[0][1]}", f"{a} written in {bad[0][0]} ({bad[0][1]}): the name T resolves to {bad[0][2]}, expected ['two.{bad[0][0]}.T']", case, None, size=len(a))
    # two loads in one process: the same module path once with and once without postponed evaluation
    for first in (False, True):
        outs = []
        for future in (first, not first):
            code = ("from __future__ import annotations\n" if future else "") + "class A: ...\nx: \"list[A]\" = None\n"
            mod = griffe.visit("twice", filepath=Path("twice.py"), code=code)
            outs.append((future, str(mod["x"].annotation)))
        case = {"family": "two-scopes", "loads": outs}
        want = [(f, "'list[A]'" if f else "list[A]") for f, _ in outs]
        norm = [(f, t.replace('"', "'")) for f, t in outs]
        acc.case(case, outcome="two-loads:" + ("ok" if norm == want else "bad"), nontrivial=True)
        if norm != want:
            acc.violation("strings/second-load-same-module-path", f"loading the same module path twice (postponed evaluation {outs[0][0]} then {outs[1][0]}): annotations stored as {norm}, expected {want}", case, None, size=2)


CHAIN_HEAD = "import os.path\nimport collections.abc as cabc\nclass Outer:\n    class Middle:\n        class Inner:\n            class Leaf: ...\n"
CHAINS = [("Outer.Middle", ["m.Outer", "m.Outer.Middle"]), ("Outer.Middle.Inner", ["m.Outer", "m.Outer.Middle", "m.Outer.Middle.Inner"]),
          ("Outer.Middle.Inner.Leaf", ["m.Outer", "m.Outer.Middle", "m.Outer.Middle.Inner", "m.Outer.Middle.Inner.Leaf"]),
          ("os.path.join", ["os", "os.path", "os.path.join"]), ("cabc.Sequence.register", ["collections.abc", "collections.abc.Sequence", "collections.abc.Sequence.register"]),
          ("list[Outer.Middle.Inner]", ["list", "m.Outer", "m.Outer.Middle", "m.Outer.Middle.Inner"]), ("Outer.Middle.Inner | Outer.Middle | None", ["m.Outer", "m.Outer.Middle", "m.Outer.Middle.Inner", "m.Outer", "m.Outer.Middle"])]


def _run_chains(griffe, acc):
    """Dotted chains of two, three and four names in every storage slot: every name element resolves to the object the chain reaches up to that name (each name through the one before it)."""
    for text, want in CHAINS:
        for slot in SLOTS:
            body = {"value": f"x = {text}", "annotation": f"y: {text} = 0", "param-default": f"def f(p={text}): ...", "param-annotation": f"def f(p: {text}): ...", "returns": f"def f(p) -> {text}: ...",
                    "decorator": f"@({text})\ndef g(): ...", "base": f"class K({text}): ...", "class-decorator": f"@({text})\nclass KD: ..."}[slot]
            if slot == "base" and ("|" in text or "[" in text):
                continue
            mod = griffe.visit("m", filepath=Path("m.py"), code=CHAIN_HEAD + body + "\n")
            stored = _stored(mod, slot)
            case = {"family": "chains", "expression": text, "slot": slot}
            try:
                got = [n.canonical_path for n in stored.iterate(flat=True) if type(n).__name__ == "ExprName"]
            except Exception as e:  # noqa: BLE001
                got = "raise " + type(e).__name__
            ok = got == want and str(stored).replace(" ", "") == text.replace(" ", "")
            acc.case(case, outcome="chains:" + ("ok" if ok else "bad"), nontrivial=True)
            acc.observe(got)
            if not ok:
                n = max(len(t.split(".")) for t in text.replace("[", " ").replace("]", " ").replace("|", " ").split())
                acc.violation(f"names/chain-resolution/{slot}/{min(n, 4)}-names", f"`{text}` in {slot}: name elements resolve to {got}, the chain reaches {want} (rendered {str(stored)!r})", case, None, size=len(text))


def run_shard(shard, tier):
    boot.boot()
    import griffe

    acc = Acc()
    if shard == 0:
        _run_strings(griffe, acc)
        _run_chains(griffe, acc)
    if shard == 1:
        _run_two_scopes(griffe, acc)
    for idx, tree in enumerate(X.enumerate_trees(tier)):
        if idx % NSHARDS != shard:
            continue
        try:
            _run_tree(griffe, acc, tree)
        except Exception as e:  # noqa: BLE001
            import traceback

            acc.violation(f"harness-or-raise/{type(e).__name__}", repr(e), {"tree": tree}, {"tb": traceback.format_exc()[-600:]})
    return acc.result()


def _detuple(t):
    if isinstance(t, list):
        return tuple(_detuple(x) for x in t)
    return t


def replay(case):
    boot.boot()
    import griffe

    acc = Acc()
    if case.get("family") == "two-scopes":
        _run_two_scopes(griffe, acc)
    elif "annotation" in case and "tree" not in case:
        _run_strings(griffe, acc)
    else:
        _run_tree(griffe, acc, _detuple(case["tree"]))
    return [(k, v["summary"], v["detail"]) for k, v in acc.violations.items()]
