"""C20 — Loading from Git leaves repository and file system untouched on every path.  (E3, fault enumeration)

Histories: scripted repositories (fixed identity/dates): two commits touching pkg/, a tag, optionally a branch with a slash,
a detached HEAD, an extra user worktree, a DIRTY index + working tree (staged, unstaged, untracked — these must survive
too), old sources with a syntax error, a reference where the package is absent, a module that writes a file next to itself
when imported.
Operations: load_git (static / forced inspection / with an extension), load_git of an unknown ref, of a slash-branch,
check(pkg, against=tag).
Interception points, recorded in order on a fault-free run: every subprocess.run / check_output issued by _griffe.git, the
TemporaryDirectory creation, ModuleFinder.find_spec, every _visit_module / _inspect_module, expand_exports,
expand_wildcards, resolve_aliases, EVERY event delivered to a recording extension, every item of find_breaking_changes.
Faults: the git command fails, the step raises RuntimeError, raises KeyboardInterrupt; quick: every single fault at every
point; thorough: every ordered pair.
Oracle: a repository snapshot (HEAD symbolic+sha, every branch and tag with sha, status --porcelain=v2, ls-files -s, diff,
worktree list, stash list, content hash of the working tree) is identical before and after; $TMPDIR holds no griffe-worktree-*;
on success the returned objects stay usable (source, lines, full JSON, Breakage.explain without worktree paths).  A fault
injected INTO one of the three clean-up commands is only judged for not masking the original exception.
"""
from __future__ import annotations

import contextlib
import hashlib
import io
import itertools
import os
import shutil
import subprocess
import tempfile

from mc.core import boot, sandbox
from mc.core.driver import Acc

PROPERTY = "C20"
LEVEL = "fault_enumeration"
NSHARDS = 32
RULE = (
    "(history, operation) pairs x every interception point of the fault-free run x fault kinds, up to the fault bound; non-trivial = a fault is injected or the "
    "history is dirty/has extra refs; distinct by construction"
)
ASSUMPTIONS = ["git 2.x in PATH, identity and dates fixed by the driver", "a kill -9 of the process between worktree creation and clean-up is out of scope (no implementation could clean up)",
               "a fault injected into `worktree remove` or `branch -D` themselves makes restoration impossible by construction; only exception masking is judged there (a single fault in `worktree prune` is judged fully)"]
MANIFEST = {
    "category": "fault_enumeration",
    "text": "Exhaustive single-fault (quick) / pair-of-faults (thorough) injection at every interception point (git subprocess calls, temporary directory, finder, loader stages, every extension event, diff items) of load_git / check on 10 scripted repository histories (incl. user branches named like the temporary ones), with full repository + TMPDIR snapshot comparison (single faults inside `worktree prune` included) usability checks of the returned objects and the requirement that the returned tree is the one at the reference, on the real _griffe.git / loader / cli code. One more history: the user's own linked worktrees are named like the requested references. Further histories: the package directory is a committed symbolic link; one operation performs three loads in a row (tag, branch, tag again). Interruptions that arrive as a clean-up command returns (the command did its job) are placed at every clean-up command, alone and two in a row, and judged for leaks.",
    "note": "Complete for the histories, operations and interception points listed; interruption is modelled as KeyboardInterrupt at an interception point.",
    "technique": "fault enumeration: stateless choice-point exploration of fault placements (deviation-bounded) on the real git/loader code with repository snapshot oracle",
}

PKG_V1 = {"pkg/__init__.py": '"""Pkg v1."""\nfrom pkg.a import f\nVALUE = 1\n', "pkg/a.py": 'def f(x, y=1):\n    """Doc f."""\n    return x\ndef gone(): ...\n'}  # (gone: removed in v2, its breakage is located in the OLD tree)
PKG_V2 = {"pkg/__init__.py": '"""Pkg v2."""\nfrom pkg.a import f\nVALUE = 2\n', "pkg/a.py": 'def f(x):\n    """Doc f."""\n    return x\n'}
WRITER = "import os\nopen(os.path.join(os.path.dirname(__file__), 'written_at_import.txt'), 'w').close()\n"
HISTORIES = ["plain", "slash-branch", "detached", "user-worktree", "dirty", "syntax-error-in-old", "absent-in-old", "writes-at-import", "stash", "user-griffe-branches", "user-worktrees-named-like-refs",
             # the package directory is a symbolic link committed in the repository (pkg -> packages/pkg-impl)
             "symlinked-package"]
OPS = ["load-static", "load-inspect", "load-extension", "load-unknown-ref", "load-slash-branch", "check", "check-base-ref", "load-relative-repo-chdir", "diff-explain-cwd-tmpdir",
       # three loads in a row with one loader-less API: the old tag, the branch, the old tag again (what the first load left behind must not show in the third)
       "load-v1-main-v1"]


def _git(args, cwd, check=True):
    return subprocess.run(["git", *args], cwd=cwd, check=check, capture_output=True, text=True)


def build_repo(history, root):
    repo = os.path.join(root, "repo")
    os.makedirs(repo)
    _git(["init", "-q", "-b", "main"], repo)
    v1 = dict(PKG_V1)
    if history == "syntax-error-in-old":
        v1["pkg/bad.py"] = "def broken(:\n"
    if history == "absent-in-old":
        v1 = {"README": "nothing yet\n"}
    if history == "writes-at-import":
        v1["pkg/writer.py"] = WRITER
        v1["pkg/__init__.py"] += "from pkg import writer\n"
    if history == "symlinked-package":
        os.makedirs(os.path.join(repo, "packages", "pkg-impl"))
        os.symlink(os.path.join("packages", "pkg-impl"), os.path.join(repo, "pkg"))  # (what is written to pkg/ below lands behind the link)
    sandbox.write_tree(repo, v1)
    _git(["add", "-A"], repo)
    _git(["commit", "-q", "-m", "one"], repo)
    _git(["tag", "v1"], repo)
    if history == "slash-branch":
        _git(["branch", "feature/x"], repo)
    v2 = dict(PKG_V2)
    if history == "writes-at-import":
        v2["pkg/writer.py"] = "z = 1\n"
    for k in list(v1):
        if k not in v2 and os.path.exists(os.path.join(repo, k)):
            os.remove(os.path.join(repo, k))
    sandbox.write_tree(repo, v2)
    _git(["add", "-A"], repo)
    _git(["commit", "-q", "-m", "two"], repo)
    if history == "user-griffe-branches":
        # the user's own branches happen to be called like the temporary branches Griffe creates (griffe-<normalised ref>);
        # they carry a commit reachable from nowhere else
        _git(["branch", "feature/x", "v1"], repo)
        _git(["checkout", "-q", "-b", "griffe-v1", "v1"], repo)
        sandbox.write_tree(repo, {"user-notes.txt": "precious\n"})
        _git(["add", "-A"], repo)
        _git(["commit", "-q", "-m", "user work"], repo)
        _git(["branch", "griffe-feature-x"], repo)
        _git(["branch", "griffe-main"], repo)
        _git(["checkout", "-q", "main"], repo)
    if history == "detached":
        _git(["checkout", "-q", "--detach", "v1"], repo)
    if history == "user-worktree":
        _git(["branch", "other", "v1"], repo)
        _git(["worktree", "add", "-q", os.path.join(root, "userwt"), "other"], repo)
    if history == "user-worktrees-named-like-refs":
        # the user keeps one directory per branch: linked worktrees whose directory (hence git's administrative entry) is named like the references Griffe is asked for
        _git(["branch", "feature/x", "v1"], repo)
        _git(["branch", "other", "v1"], repo)
        _git(["worktree", "add", "-q", os.path.join(root, "trees", "v1"), "other"], repo)
        _git(["worktree", "add", "-q", "--detach", os.path.join(root, "trees", "main"), "v1"], repo)
        _git(["worktree", "add", "-q", "--detach", os.path.join(root, "trees", "feature-x"), "v1"], repo)
    if history == "dirty":
        with open(os.path.join(repo, "pkg/a.py"), "a") as f:
            f.write("# staged change\n")
        _git(["add", "pkg/a.py"], repo)
        with open(os.path.join(repo, "pkg/__init__.py"), "a") as f:
            f.write("# unstaged change\n")
        with open(os.path.join(repo, "untracked.txt"), "w") as f:
            f.write("untracked\n")
    if history == "stash":
        with open(os.path.join(repo, "pkg/a.py"), "a") as f:
            f.write("# stashed\n")
        _git(["stash", "-q"], repo)
    return repo


def snapshot(repo, root):
    out = {}
    out["head"] = _git(["symbolic-ref", "-q", "HEAD"], repo, check=False).stdout.strip() + "@" + _git(["rev-parse", "HEAD"], repo).stdout.strip()
    out["refs"] = _git(["for-each-ref", "--format=%(refname) %(objectname)"], repo).stdout
    out["status"] = _git(["status", "--porcelain=v2", "--untracked-files=all"], repo).stdout
    out["index"] = _git(["ls-files", "-s"], repo).stdout
    out["diff"] = _git(["diff"], repo).stdout
    out["worktrees"] = _git(["worktree", "list", "--porcelain"], repo).stdout
    out["stash"] = _git(["stash", "list"], repo).stdout
    h = hashlib.sha1()
    for dp, dn, fn in os.walk(repo):
        dn[:] = sorted(d for d in dn if d != ".git")
        for f in sorted(fn):
            p = os.path.join(dp, f)
            h.update(os.path.relpath(p, repo).encode())
            h.update(open(p, "rb").read())
    out["tree"] = h.hexdigest()
    tmp = os.environ.get("TMPDIR", tempfile.gettempdir())
    out["tmp"] = sorted(x for x in os.listdir(tmp) if x.startswith("griffe-worktree-")) if os.path.isdir(tmp) else []
    return out


class Injector:
    CLEANUP = ("worktree-remove", "worktree-prune", "branch-D")

    def __init__(self, plan):
        self.plan = plan  # {point index: fault kind}
        self.n = 0
        self.log = []

    def point(self, label, git=False):
        i = self.n
        self.n += 1
        self.log.append(label)
        f = self.plan.get(i)
        if f == "runtime":
            raise RuntimeError(f"injected at {label}")
        if f == "interrupt":
            raise KeyboardInterrupt
        if f in ("gitfail", "gitfail-after", "interrupt-after") and git:
            return f
        return None


def _git_label(args):
    a = [x for x in args if not x.startswith("-") or x in ("-D",)]
    a = [x for x in a if x != "git"]
    words = [x for x in a if x in ("worktree", "add", "remove", "prune", "branch", "-D", "rev-parse", "tag")]
    return "git:" + "-".join(words[:2]) if words else "git:other"


@contextlib.contextmanager
def instrumented(inj):
    from _griffe import cli, finder, git, loader

    real_sub = git.subprocess

    class SubProxy:
        def __getattr__(self, name):
            return getattr(real_sub, name)

        def run(self, args, **kw):
            r = inj.point(_git_label(args), git=True)
            if r == "gitfail":
                if kw.get("check"):
                    raise real_sub.CalledProcessError(1, args, b"", b"injected failure")
                return real_sub.CompletedProcess(args, 1, b"" if not kw.get("text") else "", b"injected failure" if not kw.get("text") else "injected failure")
            if r in ("gitfail-after", "interrupt-after"):
                # the command really runs (with all its side effects) and THEN fails / is interrupted: a failing hook or filter, Ctrl-C late in the command
                res = real_sub.run(args, **{**kw, "check": False})
                if r == "interrupt-after":
                    raise KeyboardInterrupt
                if kw.get("check"):
                    raise real_sub.CalledProcessError(1, args, res.stdout, res.stderr)
                return real_sub.CompletedProcess(args, 1, res.stdout, res.stderr)
            return real_sub.run(args, **kw)

        def check_output(self, args, **kw):
            r = inj.point(_git_label(args), git=True)
            if r == "gitfail":
                raise real_sub.CalledProcessError(1, args, b"", b"injected failure")
            return real_sub.check_output(args, **kw)

    real_tmp = git.TemporaryDirectory

    def tmpdir(*a, **kw):
        inj.point("tmpdir")
        return real_tmp(*a, **kw)

    patched = []

    def wrap(owner, name, label):
        real = getattr(owner, name)

        def inner(*a, **kw):
            inj.point(label)
            return real(*a, **kw)

        setattr(owner, name, inner)
        patched.append((owner, name, real))

    git.subprocess = SubProxy()
    git.TemporaryDirectory = tmpdir
    for name in ("_visit_module", "_inspect_module", "expand_exports", "expand_wildcards", "resolve_aliases"):
        wrap(loader.GriffeLoader, name, "loader:" + name)
    wrap(finder.ModuleFinder, "find_spec", "finder:find_spec")
    real_fbc = cli.find_breaking_changes

    def fbc(old, new):
        inj.point("diff:start")
        for b in real_fbc(old, new):
            inj.point("diff:item")
            yield b

    cli.find_breaking_changes = fbc
    try:
        yield
    finally:
        git.subprocess = real_sub
        git.TemporaryDirectory = real_tmp
        cli.find_breaking_changes = real_fbc
        for owner, name, real in patched:
            setattr(owner, name, real)


def make_extension(griffe, inj):
    class Ext(griffe.Extension):
        pass

    for ev in ("on_node", "on_instance", "on_members", "on_module_instance", "on_module_members", "on_function_instance", "on_attribute_instance", "on_alias", "on_package_loaded"):
        def handler(self, _ev=ev, **kw):
            inj.point("event:" + _ev)

        setattr(Ext, ev, handler)
    return Ext()


def operate(griffe, op, repo, inj):
    """Run the operation; returns (outcome, result object or None)."""
    from _griffe import cli

    if op == "load-static":
        return griffe.load_git("pkg", ref="v1", repo=repo, allow_inspection=False)
    if op == "load-inspect":
        return griffe.load_git("pkg", ref="v1", repo=repo, force_inspection=True)
    if op == "load-extension":
        return griffe.load_git("pkg", ref="v1", repo=repo, allow_inspection=False, extensions=griffe.load_extensions(make_extension(griffe, inj)))
    if op == "load-v1-main-v1":
        first = griffe.load_git("pkg", ref="v1", repo=repo, allow_inspection=False)
        second = griffe.load_git("pkg", ref="main", repo=repo, allow_inspection=False)
        third = griffe.load_git("pkg", ref="v1", repo=repo, allow_inspection=False)
        docs = [m.docstring.value if m.docstring else None for m in (first, second, third)]
        if docs != ["Pkg v1.", "Pkg v2.", "Pkg v1."] or "gone" in second["a"].members or "def f(x, y=1)" not in first["a.f"].source or "def f(x):" not in second["a.f"].source:
            raise AssertionError(f"three loads (v1, main, v1) returned the trees {docs}")
        return third
    if op == "load-unknown-ref":
        return griffe.load_git("pkg", ref="no-such-ref", repo=repo, allow_inspection=False)
    if op == "diff-explain-cwd-tmpdir":
        # the working directory is the temporary directory itself: paths inside the checkout are then *relative* paths
        cwd = os.getcwd()
        os.chdir(os.environ["TMPDIR"])
        try:
            old = griffe.load_git("pkg", ref="v1", repo=repo, allow_inspection=False)
            new = griffe.load("pkg", search_paths=[repo], allow_inspection=False)
            text = "\n".join(b.explain(griffe.ExplanationStyle(st)) for b in griffe.find_breaking_changes(old, new) for st in ("oneline", "verbose", "markdown", "github"))
            return ("rc", 1 if text else 0, text)
        finally:
            os.chdir(cwd)
    if op == "load-relative-repo-chdir":
        # the repository is given as "." and something run during the load (here an extension) changes the working directory
        cwd = os.getcwd()
        os.chdir(repo)
        try:
            class Chdir(griffe.Extension):
                def on_module_instance(self, **kwargs):
                    os.chdir(os.environ["TMPDIR"])

            return griffe.load_git("pkg", ref="v1", repo=".", allow_inspection=False, extensions=griffe.load_extensions(Chdir()))
        finally:
            os.chdir(cwd)
    if op == "load-slash-branch":
        return griffe.load_git("pkg", ref="feature/x", repo=repo, allow_inspection=False)
    if op == "check":
        cwd = os.getcwd()
        os.chdir(repo)
        try:
            with contextlib.redirect_stdout(io.StringIO()) as out, contextlib.redirect_stderr(io.StringIO()) as err:
                rc = cli.check("pkg", against="v1", extensions=[make_extension(griffe, inj)])
            return ("rc", rc, out.getvalue() + err.getvalue())
        finally:
            os.chdir(cwd)
    if op == "check-base-ref":
        # both versions come from temporary checkouts (two worktrees, two temporary branches)
        cwd = os.getcwd()
        os.chdir(repo)
        try:
            with contextlib.redirect_stdout(io.StringIO()) as out, contextlib.redirect_stderr(io.StringIO()) as err:
                rc = cli.check("pkg", against="v1", base_ref="main")
            return ("rc", rc, out.getvalue() + err.getvalue())
        finally:
            os.chdir(cwd)
    raise AssertionError(op)


def applicable(history, op):
    if history in ("user-griffe-branches", "user-worktrees-named-like-refs"):
        return op in ("load-static", "load-slash-branch", "check", "check-base-ref")
    if history == "symlinked-package":
        return op in ("load-static", "load-inspect", "check", "load-v1-main-v1")
    if op == "check-base-ref":
        return history in ("plain", "dirty", "user-worktree")
    if op == "load-slash-branch":
        return history == "slash-branch"
    if op == "load-inspect":
        return history in ("plain", "writes-at-import", "dirty")
    if op == "load-relative-repo-chdir":
        return history in ("plain", "dirty", "user-worktree")
    if op == "diff-explain-cwd-tmpdir":
        return history in ("plain", "dirty")
    if op == "load-unknown-ref":
        return history in ("plain", "dirty")
    if op == "load-v1-main-v1":
        return history in ("plain", "dirty", "user-worktree", "detached")
    if op == "check":
        return history in ("plain", "dirty", "syntax-error-in-old", "absent-in-old", "detached", "user-worktree")
    return True


def pairs(tier):
    for h in HISTORIES:
        for op in OPS:
            if applicable(h, op):
                yield (h, op)


def bounds(tier):
    return {"histories": HISTORIES, "operations": OPS, "fault_kinds": ["gitfail", "runtime", "interrupt", "gitfail-after (worktree add)", "interrupt-after (worktree add; clean-up commands, one and two in a row)"], "max_faults": 1 if tier == "quick" else 2, "history_x_operation_pairs": len(list(pairs(tier)))}


def shards(tier):
    return [p for p in pairs(tier)]


def run_once(griffe, history, op, plan, template, baseline_leaks=()):
    """-> (log, outcome, violations [(key, summary)])"""
    tempfile.tempdir = None
    viols = []
    with sandbox.scratch_dir("c20") as d, sandbox.interpreter_state():
        shutil.copytree(template, os.path.join(d, "w"), symlinks=True)
        root = os.path.join(d, "w")
        # a temporary directory of our own: other shards run concurrently and must not show up in the snapshot
        os.makedirs(os.path.join(d, "tmp"))
        os.environ["TMPDIR"] = os.path.join(d, "tmp")
        tempfile.tempdir = None
        repo = os.path.join(root, "repo")
        # a copied repository keeps absolute worktree paths of the template: repair them for the user-worktree history
        if history == "user-worktree":
            _git(["worktree", "repair", os.path.join(root, "userwt")], repo, check=False)
        before = snapshot(repo, root)
        inj = Injector(plan)
        outcome, result, exc = "ok", None, None
        try:
            with instrumented(inj):
                result = operate(griffe, op, repo, inj)
        except BaseException as e:  # noqa: BLE001
            exc = e
            outcome = "raise:" + type(e).__name__
        after = snapshot(repo, root)
        fault_labels = [inj.log[i] if i < len(inj.log) else "?" for i in sorted(plan)]
        # (a fault in `worktree prune` ALONE is judged like any other: pruning is redundant once `worktree remove --force` has done its work,
        # and the steps after it run whatever happens to it)
        # (faults of the "after" kinds let the command do its job first: they are judged for leaks like faults anywhere else)
        hard = [l for i, l in zip(sorted(plan), fault_labels) if not str(plan[i]).endswith("-after")]
        in_cleanup = any(any(c in l for c in ("worktree-remove", "branch--D", "branch-D")) for l in hard) or (len(hard) > 1 and any("worktree-prune" in l for l in hard))
        ctx = "+".join(f"{plan[i]}@{(inj.log[i] if i < len(inj.log) else '?')}" for i in sorted(plan)) or "no-fault"
        if not in_cleanup:
            for k in before:
                if before[k] != after[k]:
                    what = {"refs": "branch", "worktrees": "worktree", "tmp": "tmpdir", "index": "index", "status": "status", "tree": "working-tree-files", "head": "HEAD", "diff": "diff", "stash": "stash"}[k]
                    detail = after[k] if k in ("tmp",) else "\n".join(l for l in str(after[k]).splitlines() if l not in str(before[k]).splitlines())[:300]
                    # a leak that also happens without any fault is one defect, whatever is injected on top of it
                    tail = "no-fault" if (not plan or what in baseline_leaks) else _ctx_class(ctx)
                    viols.append((f"leak/{what}/{op}/{history if history in ('writes-at-import',) else 'any-history'}/{tail}", f"{op} on '{history}' with {ctx}: {what} differs afterwards: {detail!r}"))
        else:
            # only masking is judged: with a runtime/interrupt fault earlier, that exception must still be the one that surfaces
            first = [plan[i] for i in sorted(plan)][0]
            first_label = fault_labels[0]
            if not any(c in first_label for c in ("worktree-remove", "worktree-prune", "branch-D")) and first in ("runtime", "interrupt"):
                want = RuntimeError if first == "runtime" else KeyboardInterrupt
                if not isinstance(exc, want):
                    viols.append((f"masked/{first}/{_ctx_class(ctx)}", f"original {want.__name__} replaced by {type(exc).__name__ if exc else 'a normal return'} ({ctx})"))
        # usability of returned objects once the checkout is gone
        if exc is None and result is not None and not plan:
            try:
                if isinstance(result, tuple):
                    if "griffe-worktree-" in result[2]:
                        viols.append(("unusable/explain-mentions-worktree", f"check output mentions the temporary checkout: {result[2][:200]!r}"))
                else:
                    fobj = result["a.f"] if "a" in result.members else None
                    if fobj is not None:
                        if "def f" not in fobj.source or not fobj.lines:
                            viols.append(("unusable/source", f"source of pkg.a.f unavailable after the checkout was removed: {fobj.source!r}"))
                    result.as_json(full=True)
                    # "loading a package from a Git reference": what comes back is the package AT that reference, not the working tree's
                    if op in ("load-static", "load-inspect", "load-extension", "load-relative-repo-chdir", "load-v1-main-v1") and history != "absent-in-old":
                        doc = result.docstring.value if result.docstring else None
                        if doc != "Pkg v1." or (fobj is not None and "y=1" not in fobj.source) or ("a" in result.members and "gone" not in result["a"].members):
                            viols.append((f"not-the-ref/{op}", f"{op} on '{history}' (ref v1) returned docstring {doc!r}, members of pkg.a {sorted(result['a'].members) if 'a' in result.members else None}: not the tree at v1"))
                        if os.path.realpath(str(result.filepath)).startswith(os.path.realpath(repo) + os.sep):
                            viols.append((f"not-the-ref/filepath-in-working-tree/{op}", f"{op} on '{history}': the returned module's file is {result.filepath}, inside the user's working tree"))
            except Exception as e:  # noqa: BLE001
                viols.append((f"unusable/{type(e).__name__}", f"returned object unusable after clean-up: {e!r}"))
        # exception family on fault-free runs
        if not plan and exc is not None:
            okfam = isinstance(exc, (RuntimeError, ImportError, griffe.LoadingError, OSError, griffe.GitError))
            if not okfam:
                viols.append((f"exctype/{type(exc).__name__}/{op}/{history}", f"fault-free {op} on '{history}' raised {exc!r}"))
        return inj.log, outcome, viols


def _ctx_class(ctx):
    import re

    return re.sub(r"injected at ", "", ctx)


def run_shard(shard, tier):
    boot.boot()
    import griffe

    history, op = shard
    acc = Acc()
    with sandbox.scratch_dir("c20t") as troot:
        template = os.path.join(troot, "tpl")
        os.makedirs(template)
        build_repo(history, template)
        log, outcome, viols = run_once(griffe, history, op, {}, template)
        acc.case({"history": history, "op": op, "faults": []}, outcome=f"{op}:{outcome}", nontrivial=history != "plain")
        acc.counters["interception_points"] += len(log)
        for k, s in viols:
            acc.violation(k, s, {"history": history, "op": op, "plan": {}}, {"points": log}, size=0)
        baseline = tuple(k.split("/")[1] for k, _ in viols if k.startswith("leak/"))
        kinds = ["gitfail", "runtime", "interrupt"]
        plans = []
        for i, label in enumerate(log):
            for f in kinds + ["gitfail-after", "interrupt-after"]:
                if f.startswith("gitfail") or f == "interrupt-after":
                    # the "after" kinds only where a half-done command matters: commands that change the repository and are not clean-up
                    if not label.startswith("git:") or (f != "gitfail" and label != "git:worktree-add"):
                        continue
                plans.append({i: f})
        # interruptions that arrive as a CLEAN-UP command returns (the command did its job): one, and two in a row -- the steps after them still run, nothing is left behind
        cleanup_points = [i for i, label in enumerate(log) if any(c in label for c in ("worktree-remove", "worktree-prune", "branch-D"))]
        for a_, i in enumerate(cleanup_points):
            plans.append({i: "interrupt-after"})
            for j in cleanup_points[a_ + 1:]:
                plans.append({i: "interrupt-after", j: "interrupt-after"})
        if tier == "thorough":
            for i, li in enumerate(log):
                for j in range(i + 1, len(log)):
                    for fi in kinds:
                        for fj in kinds:
                            if (fi == "gitfail" and not li.startswith("git:")) or (fj == "gitfail" and not log[j].startswith("git:")):
                                continue
                            if fi != "gitfail":
                                continue  # after an exception at i, later points are only the clean-up ones: covered by (gitfail|*) pairs below
                            plans.append({i: fi, j: fj})
            # an exception at i followed by a failing clean-up command: the clean-up points appear after the fault, find them by label on replay
            for i, li in enumerate(log):
                for fi in ("runtime", "interrupt"):
                    for extra in range(1, 4):
                        plans.append({i: fi, "cleanup": extra})
        for plan in plans:
            real_plan = {k: v for k, v in plan.items() if k != "cleanup"}
            if "cleanup" in plan:
                # dry replay to find the index of the n-th clean-up command after the fault
                l2, _o, _v = run_once(griffe, history, op, real_plan, template)
                cl = [idx for idx, lab in enumerate(l2) if any(c in lab for c in ("worktree-remove", "worktree-prune", "branch-D")) and idx > max(real_plan)]
                if len(cl) < plan["cleanup"]:
                    continue
                real_plan[cl[plan["cleanup"] - 1]] = "gitfail"
            l2, outcome, viols = run_once(griffe, history, op, real_plan, template, baseline)
            acc.case({"history": history, "op": op, "faults": [[k, v] for k, v in sorted(real_plan.items())]}, outcome=f"{op}:{outcome}", nontrivial=True)
            acc.observe(outcome)
            for k, s in viols:
                acc.violation(k, s, {"history": history, "op": op, "plan": {str(a): b for a, b in real_plan.items()}}, {"points": l2}, size=len(real_plan))
    return acc.result()


def replay(case):
    boot.boot()
    import griffe

    with sandbox.scratch_dir("c20r") as troot:
        template = os.path.join(troot, "tpl")
        os.makedirs(template)
        build_repo(case["history"], template)
        _l, _o, viols = run_once(griffe, case["history"], case["op"], {int(k): v for k, v in case["plan"].items()}, template)
    return [(k, s, None) for k, s in viols]
