"""C19 — Merging stubs loses nothing and prefers stub types.

Five member slots — function f, class K (attribute, method, nested class, a stub-only method), module attribute x, import
alias imp, overload set o — each in one of the statuses {absent, runtime only, stubs only, both same kind, both different
kind} (o additionally: stub overloads followed by an implementation-style def): all 6 x 5^3 x 6 status vectors, x three stub
placements (sibling mod.pyi of a top-level module; .pyi files inside a package; separate pkg-stubs package with
find_stubs_package=True) x both directory-listing orders (.pyi reported before / after .py, through the listing seam).
Oracle: a reference merge written per slot: every runtime member survives; same-kind pairs take parameter / return /
attribute annotations and overload lists from the stubs and keep the runtime docstring; stub-only members appear with
runtime False; different-kind pairs leave the runtime member untouched; nothing raises; no import alias has become
resolved; both discovery orders give identical minimal JSON.
"""
from __future__ import annotations

import itertools
import json
import math
import os

from mc.core import boot, listing, sandbox
from mc.core.driver import Acc

PROPERTY = "C19"
LEVEL = "exploration"
NSHARDS = 48
RULE = (
    "all status vectors over the five slots x three placements x two listing orders; non-trivial = at least one slot is present on both sides "
    "(so a merge decision is taken); distinct by construction"
)
ASSUMPTIONS = ["merging stubs into the *target* of a runtime alias is documented behaviour (tests/test_merger.py) and not judged; only aliases present as aliases are required to stay unresolved",
               "quick tier uses two docstring/annotation presence patterns (runtime docs only + stub annotations only; everything present on both sides); thorough uses all 16"]
MANIFEST = {
    "category": "exploration",
    "text": "Bounded exhaustive enumeration of (runtime module, stubs) pairs by per-slot status vectors (3750 vectors) x 3 stub placements x 2 directory listing orders (x 4 docstring/annotation presence patterns in the thorough tier), plus all 1-3 overload-only stub functions x runtime-presence masks at module and class level, loaded by the real loader/finder/merger with the directory listing order owned by the harness; compared with a per-slot reference merge and across listing orders; further families: overload sets named like a runtime member of another kind, wildcard re-exports with and without stubs, and two module/stubs pairs with an alias across them under all 120 listing orders. The function slot has a status for stub signatures with / and * markers the runtime signature lacks; family SL reaches the stubs distribution and the package through symbolic links and compares with plain directories. Family SL also requests the package through module names two and three deep.",
    "note": "Complete for the slot/status/placement alphabet; listing order is controlled through the os.walk / Path.iterdir seam of _griffe.finder.",
    "technique": "model checking by exhaustive enumeration of status vectors x listing orders on the real loader with a reference merge",
}

STATUS = ["absent", "runtime", "stubs", "both", "kind-mismatch"]
PLACEMENTS = ["sibling-module", "in-package", "stubs-package"]
ORDERS = ["asc", "desc"]
PATTERNS = {"quick": [(True, False, False, True), (True, True, True, True)], "thorough": list(itertools.product((True, False), repeat=4))}  # (rt doc, rt ann, stub doc, stub ann)


def bounds(tier):
    return {"slots": ["f", "K", "x", "imp", "o"], "statuses": STATUS + ["o: overloads+implementation in stubs", "f: stub signature with an extra leading parameter", "f: stub signature with / and * markers the runtime signature lacks"], "placements": PLACEMENTS, "orders": ORDERS,
            "doc/annotation patterns": len(PATTERNS[tier])}


def all_cases(tier):
    for pat in PATTERNS[tier]:
        if tier == "thorough" and pat == PATTERNS["quick"][0]:
            pass
        for sv in itertools.product(range(7), range(5), range(5), range(5), range(8)):
            for pl in PLACEMENTS:
                yield (sv, pl, pat)


    # OV: several overload-only functions in the stubs (module level and inside a class), each with or without a runtime function:
    # every runtime function must receive its overloads whatever stands above or below it in the stubs
    for n in (1, 2, 3):
        for mask in range(2 ** n):
            for level in ("module", "class", "both") + (("stub-only-class",) if mask == 0 else ()):
                for pl in PLACEMENTS:
                    yield (("OV", n, mask, level), pl, PATTERNS["quick"][0])


    # OK: an overload set in the stubs whose name is a runtime member of ANOTHER kind (a class with overloaded methods of its own, an attribute):
    # "never raises on mismatched kinds", the runtime member stays as it is
    for rk in ("class", "attribute"):
        for pl in PLACEMENTS:
            yield (("OK", rk), pl, PATTERNS["quick"][0])

    # XP: two (module, stubs) pairs in one package, an alias of the second module pointing into the first: EVERY order in which the directory can
    # list the files (the two files of a pair need not be adjacent) must give the same merged result, and the alias must reach the merged member
    for nstub in XP_NSTUBS:
        yield (("XP", nstub), "in-package", PATTERNS["quick"][0])

    # WS: "loses nothing", differentially: a package whose __init__ re-exports through wildcards and assembled __all__ lists is loaded
    # without stubs and with a stub for its __init__ (two placements): every runtime member must still be there, with the same kind/target
    for variant in WS_VARIANTS:
        for stub in WS_STUBS:
            for pl in ("in-package", "stubs-package"):
                yield (("WS", variant, stub), pl, PATTERNS["quick"][0])


def shards(tier):
    return list(range(NSHARDS))


WS_BASE = {"pkg/base.py": "__all__ = ['y']\ny = 1\n_z = 2\ndef not_exported(): ...\n", "pkg/other.py": "def o(): ...\nclass OC: ...\n"}
WS_VARIANTS = {
    "all-assembled": {"pkg/__init__.py": "from .mod import *\n", "pkg/mod.py": "from . import base\nfrom .base import *\n__all__ = ['x', *base.__all__]\nx = 1\n"},
    "all-plus": {"pkg/__init__.py": "from .mod import *\nfrom .other import *\n", "pkg/mod.py": "from . import base\nfrom .base import *\n__all__ = ['x'] + base.__all__\nx = 1\n"},
    "init-all": {"pkg/__init__.py": "from . import mod\nfrom .mod import *\n__all__ = ['top', *mod.__all__]\ntop = 0\n", "pkg/mod.py": "from .base import *\nfrom . import base\n__all__ = [*base.__all__, 'x']\nx = 1\n"},
    "no-all": {"pkg/__init__.py": "from .mod import *\nfrom .base import *\n", "pkg/mod.py": "from .other import *\nx = 1\n"},
    # the package defines o and OC itself, several lines down; the stubs may wildcard-import the same names from .other
    "local-defs": {"pkg/__init__.py": "import os\nimport sys\nx = 1\n\n\ndef o():\n    return 1\n\n\nclass OC:\n    own = 1\n", "pkg/mod.py": "y = 2\n"},
    "chain": {"pkg/__init__.py": "from .mod import *\n", "pkg/mod.py": "from .base import *\nfrom .other import *\nx = 1\n"},
}
WS_STUBS = {"x-int": "x: int\n", "empty": "", "stub-only": "x: int\ndef only_in_stubs() -> int: ...\n", "wildcard": "from .mod import *\nx: int\n", "wildcard-other": "from .other import *\nx: int\n",
            "wildcard-other-late": "x: int\n" + "\n" * 20 + "from .other import *\n"}


def _run_ws(griffe, acc, case):
    (_tag, variant, stub), pl, _pat = case
    files = {**WS_BASE, **WS_VARIANTS[variant]}
    cd = {"case": [["WS", variant, stub], pl, list(_pat)], "files": files}

    def view(with_stubs):
        fs = dict(files)
        opts = {}
        if with_stubs:
            if pl == "in-package":
                fs["pkg/__init__.pyi"] = WS_STUBS[stub]
            else:
                fs["pkg-stubs/__init__.pyi"] = WS_STUBS[stub]
                opts = {"find_stubs_package": True}
        with sandbox.scratch_dir("c19w") as d:
            sandbox.write_tree(d, fs)
            loader = griffe.GriffeLoader(search_paths=[d], allow_inspection=False)
            loader.load("pkg", **opts)
            loader.resolve_aliases(implicit=True, external=False)
            out = {}
            for n, m in loader.modules_collection["pkg"].members.items():
                if m.is_alias:
                    try:
                        out[n] = ("alias", m.final_target.path)  # (the object reached: stubs may re-export it more directly)
                    except Exception:  # noqa: BLE001
                        out[n] = ("alias", "unresolved:" + m.target_path)
                else:
                    out[n] = (m.kind.value, None)
            return out

    try:
        without, with_ = view(False), view(True)
    except Exception as e:  # noqa: BLE001
        acc.violation(f"raise/{type(e).__name__}/reexporting-package/{pl}", f"load raised {e!r}", cd, None, size=3)
        return
    acc.case({"case": cd["case"]}, outcome=pl + ":reexporting-package", nontrivial=True)
    acc.observe(sorted(with_.items()))
    for n, v in without.items():
        if n not in with_:
            acc.violation(f"merge/lost-runtime-member/{variant}/{pl}", f"pkg.{n} ({v[0]}) is a member without stubs but is gone when {('pkg/__init__.pyi' if pl == 'in-package' else 'pkg-stubs/__init__.pyi')} exists", cd, {"without": sorted(without), "with": sorted(with_)}, size=3)
        elif with_[n] != v and not (v[0] == "attribute" and with_[n][0] == "attribute"):
            acc.violation(f"merge/changed-runtime-member/{variant}/{pl}", f"pkg.{n}: {v} without stubs, {with_[n]} with", cd, None, size=3)


def _ov_sources(n, mask, level):
    names = ["p", "q", "r"][:n]
    rt, st = [], ["from typing import overload"]
    if level in ("module", "both"):
        for i, nm in enumerate(names):
            st.append(f"@overload\ndef {nm}(a: int) -> int: ...\n@overload\ndef {nm}(a: str) -> str: ...")
            if mask >> i & 1:
                rt.append(f"def {nm}(a):\n    return a")
    if level == "stub-only-class":
        # the class exists in the stubs only; its methods are overload-only: the signatures stay available as K.overloads
        st.append("class K:")
        for nm in names:
            st.append(f"    @overload\n    def {nm}(self, a: int) -> int: ...\n    @overload\n    def {nm}(self, a: str) -> str: ...")
        rt.append("rv = 1")
    if level in ("class", "both"):
        st.append("class K:")
        rt.append("class K:\n    kv = 1")
        for i, nm in enumerate(names):
            st.append(f"    @overload\n    def {nm}(self, a: int) -> int: ...\n    @overload\n    def {nm}(self, a: str) -> str: ...")
            if mask >> i & 1:
                rt.append(f"    def {nm}(self, a):\n        return a")
    return "\n".join(rt) + "\n", "\n".join(st) + "\n"


XP_NSTUBS = {"none": None, "def": "def X(a: int) -> int: ...\n", "import": "from pkg.m import X\n", "other": "def other() -> int: ...\n"}


def _run_xp(griffe, acc, case):
    (_tag, nstub), pl, _pat = case
    files = {"pkg/__init__.py": "", "pkg/m.py": "def X(a):\n    \'\'\'runtime doc\'\'\'\n", "pkg/m.pyi": "def X(a: int) -> int: ...\n", "pkg/n.py": "from pkg.m import X\n"}
    if XP_NSTUBS[nstub] is not None:
        files["pkg/n.pyi"] = XP_NSTUBS[nstub]
    cd = {"case": [["XP", nstub], pl, list(_pat)], "files": files}
    names = sorted(k.split("/")[1] for k in files)
    seen = {}
    with sandbox.scratch_dir("c19x") as d:
        sandbox.write_tree(d, files)
        for perm in itertools.permutations(names):
            def order(_d, ns, _what, perm=perm):
                return sorted(ns, key=lambda x: perm.index(x) if x in perm else -1)
            try:
                with listing.Listing(order):
                    loader = griffe.GriffeLoader(search_paths=[d], allow_inspection=False)
                    pkg = loader.load("pkg")
                loader.resolve_aliases(implicit=True, external=False)
                mx = pkg["m"].members.get("X")
                nx = pkg["n"].members.get("X")
                reach = None
                if nx is not None and nx.is_alias:
                    try:
                        reach = "the member pkg.m.X" if nx.final_target is mx else f"another object ({nx.final_target.path}, from {getattr(nx.final_target.filepath, 'name', None)})"
                    except Exception as e:  # noqa: BLE001
                        reach = type(e).__name__
                obs = {"m.X": None if mx is None else (mx.kind.value, None if mx.returns is None else str(mx.returns), mx.docstring.value if mx.docstring else None,
                                                      [None if p.annotation is None else str(p.annotation) for p in mx.parameters]),
                       "n.X": None if nx is None else ("alias" if nx.is_alias else nx.kind.value), "n.X reaches": reach, "n": sorted(pkg["n"].members)}
            except Exception as e:  # noqa: BLE001
                acc.violation(f"raise/{type(e).__name__}/cross-pair", f"load raised {e!r} with the files listed as {perm}", cd, {"order": perm}, size=1)
                return
            seen.setdefault(json.dumps(obs, sort_keys=True), perm)
            if obs["m.X"] != ("function", "int", "runtime doc", ["int"]):
                acc.violation("merge/cross-pair/m.X", f"pkg.m.X after the merge is {obs['m.X']} with the files listed as {perm}", cd, {"order": perm}, size=1)
            if obs["n.X"] == "alias" and reach != "the member pkg.m.X":
                acc.violation("merge/cross-pair/alias-reaches-dead-object", f"pkg.n.X (from pkg.m import X) resolves to {reach} with the files listed as {perm}", cd, {"order": perm}, size=1)
    if len(seen) > 1:
        a, b2 = list(seen.items())[:2]
        acc.violation("order/cross-pair", f"the merged result depends on the listing order: {a[1]} gives {a[0]}, {b2[1]} gives {b2[0]}", cd, None, size=1)
    acc.case({"case": cd["case"]}, outcome="cross-pair", nontrivial=True)
    acc.observe(sorted(seen))
    acc.traces += math.factorial(len(names))


def _run_ok(griffe, acc, case):
    (_tag, rk), pl, _pat = case
    rt = "from typing import overload\n" + ("class T:\n    @overload\n    def m(self, a: int) -> int: ...\n    @overload\n    def m(self, a: str) -> str: ...\n    def m(self, a):\n        return a\n"
                                             if rk == "class" else "T = 1\n")
    st = "from typing import overload\n@overload\ndef T(a: int) -> int: ...\n@overload\ndef T(a: str) -> str: ...\n"
    if pl == "sibling-module":
        files, top, modpath, opts = {"mod.py": rt, "mod.pyi": st}, "mod", "mod", {}
    elif pl == "in-package":
        files, top, modpath, opts = {"pkg/__init__.py": "", "pkg/__init__.pyi": "", "pkg/mod.py": rt, "pkg/mod.pyi": st}, "pkg", "pkg.mod", {}
    else:
        files, top, modpath, opts = {"pkg/__init__.py": "", "pkg/mod.py": rt, "pkg-stubs/__init__.pyi": "", "pkg-stubs/mod.pyi": st}, "pkg", "pkg.mod", {"find_stubs_package": True}
    cd = {"case": [["OK", rk], pl, list(_pat)], "files": files}
    seen = {}
    with sandbox.scratch_dir("c19k") as d:
        sandbox.write_tree(d, files)
        for order in ORDERS:
            try:
                with listing.Listing(listing.ascending if order == "asc" else listing.descending):
                    loader = griffe.GriffeLoader(search_paths=[d], allow_inspection=False)
                    loader.load(top, **opts)
                t = loader.modules_collection[modpath].members["T"]
                if rk == "class":
                    ov = getattr(t, "overloads", None)
                    got = ("class" if t.is_class else t.kind.value, "not-a-mapping:" + type(ov).__name__ if not isinstance(ov, dict) else sorted((k, len(v)) for k, v in ov.items()),
                           sorted(t.members), [str(o.returns) for o in (t.members["m"].overloads or [])] if "m" in t.members else None)
                    want = ("class", [("m", 2)] if False else got[1] if isinstance(ov, dict) else None, ["m"], ["int", "str"])
                    if not t.is_class or not isinstance(ov, dict) or got[2] != ["m"] or got[3] != ["int", "str"]:
                        acc.violation("merge/overload-kinds/class", f"{modpath}.T (runtime class with an overloaded method m; the stubs overload a function T): after the merge kind={got[0]}, T.overloads={got[1]}, members={got[2]}, "
                                      f"overloads of T.m={got[3]}", cd, {"placement": pl, "order": order}, size=1)
                else:
                    got = (t.kind.value, hasattr(t, "overloads") and bool(getattr(t, "overloads")), None if t.value is None else str(t.value))
                    if got != ("attribute", False, "1"):
                        acc.violation("merge/overload-kinds/attribute", f"{modpath}.T (runtime attribute; the stubs overload a function T): after the merge (kind, has overloads, value) = {got}", cd,
                                      {"placement": pl, "order": order}, size=1)
                seen[order] = repr(got)
            except Exception as e:  # noqa: BLE001
                acc.violation(f"raise/{type(e).__name__}/overload-kinds/{pl}", f"load with stubs raised {e!r}", cd, None, size=1)
                return
    if len(set(seen.values())) > 1:
        acc.violation("order/overload-kinds", f"{modpath}.T differs between listing orders: {seen}", cd, None, size=1)
    acc.case({"case": cd["case"]}, outcome=pl + ":overload-kinds", nontrivial=True)
    acc.observe(seen)


def _run_ov(griffe, acc, case):
    (_tag, n, mask, level), pl, _pat = case
    rt, st = _ov_sources(n, mask, level)
    if pl == "sibling-module":
        files, top, modpath, opts = {"mod.py": rt, "mod.pyi": st}, "mod", "mod", {}
    elif pl == "in-package":
        files, top, modpath, opts = {"pkg/__init__.py": "", "pkg/__init__.pyi": "", "pkg/mod.py": rt, "pkg/mod.pyi": st}, "pkg", "pkg.mod", {}
    else:
        files, top, modpath, opts = {"pkg/__init__.py": "", "pkg/mod.py": rt, "pkg-stubs/__init__.pyi": "", "pkg-stubs/mod.pyi": st}, "pkg", "pkg.mod", {"find_stubs_package": True}
    cd = {"case": [["OV", n, mask, level], pl, list(_pat)], "files": files}
    names = ["p", "q", "r"][:n]
    seen = {}
    with sandbox.scratch_dir("c19o") as d:
        sandbox.write_tree(d, files)
        for order in ORDERS:
            try:
                with listing.Listing(listing.ascending if order == "asc" else listing.descending):
                    loader = griffe.GriffeLoader(search_paths=[d], allow_inspection=False)
                    loader.load(top, **opts)
                mod = loader.modules_collection[modpath]
            except Exception as e:  # noqa: BLE001
                acc.violation(f"raise/{type(e).__name__}/overload-sets/{pl}", f"load with stubs raised {e!r}", cd, None, size=n)
                return
            got = {}
            if level == "stub-only-class":
                k = mod.members.get("K")
                for nm in names:
                    n_ov = None if k is None else len(k.overloads.get(nm, []))
                    got["K." + nm] = n_ov
                    if n_ov != 2:
                        acc.violation("merge/overload-sets/stub-only-class", f"{modpath}.K.{nm}: {n_ov} overload signatures kept on the stub-only class, 2 written", cd, {"placement": pl, "order": order}, size=n)
                seen[order] = got
                continue
            scopes = ([("", mod)] if level in ("module", "both") else []) + ([("K.", mod.members["K"])] if level in ("class", "both") and "K" in mod.members else [])
            for prefix, scope in scopes:
                for i, nm in enumerate(names):
                    m = scope.members.get(nm)
                    got[prefix + nm] = None if m is None else ("not-function" if not m.is_function else None if not m.overloads else [str(o.returns) for o in m.overloads])
                    want = ["int", "str"] if mask >> i & 1 else None
                    if got[prefix + nm] != want:
                        above = "stub-only-above" if any(not (mask >> j & 1) for j in range(i)) else "first-or-all-present-above"
                        acc.violation(f"merge/overload-sets/{'class' if prefix else 'module'}/{above}", f"{modpath}.{prefix}{nm}: overloads {got[prefix + nm]!r}, expected {want!r} (runtime functions present: {[x for j, x in enumerate(names) if mask >> j & 1]})", cd, {"placement": pl, "order": order}, size=n)
            seen[order] = got
    acc.case({"case": cd["case"]}, outcome=pl + ":overload-sets", nontrivial=mask != 0)
    acc.observe(seen)


def sources(sv, pat):
    rt_doc, rt_ann, st_doc, st_ann = pat
    f, k, x, imp, o = sv
    rt, st = ["from typing import overload"], ["from typing import overload"]

    def d(flag, text, ind="    "):
        return f'{ind}"""{text}"""' if flag else None

    def block(lines):
        return "\n".join(l for l in lines if l is not None)

    if f in (1, 3, 4, 5, 6):
        rt.append(block([f"def f(a{': float' if rt_ann else ''}, b{': float' if rt_ann else ''}=1){' -> float' if rt_ann else ''}:", d(rt_doc, "Runtime doc f."), "    return 0"]))
    if f in (2, 3):
        st.append(block([f"def f(a{': int' if st_ann else ''}, b{': str' if st_ann else ''} = ...){' -> bool' if st_ann else ''}:", d(st_doc, "Stub doc f."), "    ..."]))
    if f == 5:
        # same kind on both sides, but the stub signature starts with a parameter the runtime function does not have
        st.append(block([f"def f(stub_only{': bytes' if st_ann else ''}, a{': int' if st_ann else ''}, b{': str' if st_ann else ''} = ...){' -> bool' if st_ann else ''}:", d(st_doc, "Stub doc f."), "    ..."]))
    if f == 6:
        # same kind, same names, but the stub marks `a` positional-only and `b` keyword-only where the runtime signature has no markers
        st.append(block([f"def f(a{': int' if st_ann else ''}, /, *, b{': str' if st_ann else ''} = ...){' -> bool' if st_ann else ''}:", d(st_doc, "Stub doc f."), "    ..."]))
    if f == 4:
        st.append("f: int")
    if k in (1, 3, 4):
        rt.append(block(["class K:", d(rt_doc, "Runtime doc K."), f"    v{': float' if rt_ann else ''} = 1", "    def m(self, p):", d(rt_doc, "Runtime doc m.", "        "), "        return p",
                         "    class N:", "        nv = 1"]))
    if k in (2, 3):
        st.append(block(["class K:", d(st_doc, "Stub doc K."), f"    v: int" if st_ann else "    v = ...", f"    def m(self, p{': int' if st_ann else ''}){' -> None' if st_ann else ''}: ...",
                         "    def stub_only_method(self) -> int: ...", "    class N:", "        nv: str" if st_ann else "        nv = ..."]))
    if k == 4:
        st.append("def K() -> None: ...")
    if x in (1, 3, 4):
        rt.append(f"x{': float' if rt_ann else ''} = 1")
    if x in (2, 3):
        st.append("x: int" if st_ann else "x = ...")
    if x == 4:
        st.append("def x() -> int: ...")
    if imp in (1, 3, 4):
        rt.append("from os import path as imp")
    if imp in (2, 3):
        st.append("from os import path as imp")
    if imp == 4:
        st.append("imp: int")
    if o in (1, 3, 4, 5):
        rt.append(block(["def o(a):", d(rt_doc, "Runtime doc o."), "    return a"]))
    if o == 7:
        rt.append("from nowhere_at_all import o")  # the runtime member is an import alias that cannot be resolved
    if o in (2, 3, 5, 6, 7):
        st.append("@overload\ndef o(a: int) -> int: ...\n@overload\ndef o(a: str) -> str: ...")
    if o in (5, 6):
        st.append("def o(a): ...")  # (6: the function exists in the stubs only, as overloads followed by an implementation-style signature)
    if o == 4:
        st.append("o: int")
    return "\n".join(rt) + "\n", "\n".join(st) + "\n"


def layout(case):
    sv, pl, pat = case
    rt, st = sources(sv, pat)
    if pl == "sibling-module":
        return {"mod.py": rt, "mod.pyi": st}, "mod", "mod", {}
    if pl == "in-package":
        return {"pkg/__init__.py": "", "pkg/__init__.pyi": "", "pkg/mod.py": rt, "pkg/mod.pyi": st}, "pkg", "pkg.mod", {}
    return {"pkg/__init__.py": "", "pkg/mod.py": rt, "pkg-stubs/__init__.pyi": "", "pkg-stubs/mod.pyi": st}, "pkg", "pkg.mod", {"find_stubs_package": True}


def observe(mod):
    def fn(f):
        return {"kind": "function", "runtime": f.runtime, "doc": f.docstring.value if f.docstring else None,
                "params": [(p.name, None if p.annotation is None else str(p.annotation)) for p in f.parameters],
                "returns": None if f.returns is None else str(f.returns),
                "overloads": None if not f.overloads else [None if ov.returns is None else str(ov.returns) for ov in f.overloads]}

    def rec(o):
        out = {}
        for n, m in o.members.items():
            if n == "overload":
                continue
            if m.is_alias:
                out[n] = {"kind": "alias", "runtime": m.runtime, "target": m.target_path, "resolved": m.resolved}
            elif m.is_function:
                out[n] = fn(m)
            elif m.is_attribute:
                out[n] = {"kind": "attribute", "runtime": m.runtime, "annotation": None if m.annotation is None else str(m.annotation), "value": None if m.value is None else str(m.value),
                          "doc": m.docstring.value if m.docstring else None}
            elif m.is_class:
                out[n] = {"kind": "class", "runtime": m.runtime, "doc": m.docstring.value if m.docstring else None, "members": rec(m)}
        return out

    return rec(mod)


def expected(sv, pat):
    rt_doc, rt_ann, st_doc, st_ann = pat
    f, k, x, imp, o = sv
    e = {}

    def doc(rt_text, st_text, have_rt, have_st):
        if have_rt and rt_doc:
            return rt_text
        if have_st and st_doc:
            return st_text
        return None

    def ann(rt_val, st_val, have_rt, have_st):
        """stub annotation wins for same-kind pairs (even when the stub has none: the merger assigns it unconditionally)."""
        if have_st:
            return st_val if st_ann else None
        return rt_val if rt_ann else None

    if f in (1, 4):
        e["f"] = {"kind": "function", "runtime": True, "doc": "Runtime doc f." if rt_doc else None, "params": [("a", "float" if rt_ann else None), ("b", "float" if rt_ann else None)],
                  "returns": "float" if rt_ann else None, "overloads": None}
    elif f == 2:
        e["f"] = {"kind": "function", "runtime": False, "doc": "Stub doc f." if st_doc else None, "params": [("a", "int" if st_ann else None), ("b", "str" if st_ann else None)],
                  "returns": "bool" if st_ann else None, "overloads": None}
    elif f in (3, 5, 6):
        e["f"] = {"kind": "function", "runtime": True, "doc": doc("Runtime doc f.", "Stub doc f.", True, True), "params": [("a", "int" if st_ann else None), ("b", "str" if st_ann else None)],
                  "returns": "bool" if st_ann else None, "overloads": None}
    if k in (1, 4):
        e["K"] = {"kind": "class", "runtime": True, "doc": "Runtime doc K." if rt_doc else None, "members": {
            "v": {"kind": "attribute", "runtime": True, "annotation": "float" if rt_ann else None, "value": "1", "doc": None},
            "m": {"kind": "function", "runtime": True, "doc": "Runtime doc m." if rt_doc else None, "params": [("self", None), ("p", None)], "returns": None, "overloads": None},
            "N": {"kind": "class", "runtime": True, "doc": None, "members": {"nv": {"kind": "attribute", "runtime": True, "annotation": None, "value": "1", "doc": None}}}}}
    elif k == 2:
        e["K"] = {"kind": "class", "runtime": False, "doc": "Stub doc K." if st_doc else None, "members": {
            "v": {"kind": "attribute", "runtime": True, "annotation": "int" if st_ann else None, "value": None if st_ann else "...", "doc": None},
            "m": {"kind": "function", "runtime": True, "doc": None, "params": [("self", None), ("p", "int" if st_ann else None)], "returns": "None" if st_ann else None, "overloads": None},
            "stub_only_method": {"kind": "function", "runtime": True, "doc": None, "params": [("self", None)], "returns": "int", "overloads": None},
            "N": {"kind": "class", "runtime": True, "doc": None, "members": {"nv": {"kind": "attribute", "runtime": True, "annotation": "str" if st_ann else None, "value": None if st_ann else "...", "doc": None}}}}}
    elif k == 3:
        e["K"] = {"kind": "class", "runtime": True, "doc": doc("Runtime doc K.", "Stub doc K.", True, True), "members": {
            "v": {"kind": "attribute", "runtime": True, "annotation": "int" if st_ann else None, "value": "1", "doc": None},
            "m": {"kind": "function", "runtime": True, "doc": "Runtime doc m." if rt_doc else None, "params": [("self", None), ("p", "int" if st_ann else None)], "returns": "None" if st_ann else None, "overloads": None},
            "stub_only_method": {"kind": "function", "runtime": False, "doc": None, "params": [("self", None)], "returns": "int", "overloads": None},
            "N": {"kind": "class", "runtime": True, "doc": None, "members": {"nv": {"kind": "attribute", "runtime": True, "annotation": "str" if st_ann else None, "value": "1", "doc": None}}}}}
    if x in (1, 4):
        e["x"] = {"kind": "attribute", "runtime": True, "annotation": "float" if rt_ann else None, "value": "1", "doc": None}
    elif x == 2:
        e["x"] = {"kind": "attribute", "runtime": False, "annotation": "int" if st_ann else None, "value": None if st_ann else "...", "doc": None}
    elif x == 3:
        e["x"] = {"kind": "attribute", "runtime": True, "annotation": "int" if st_ann else None, "value": "1", "doc": None}
    if imp in (1, 3, 4):
        e["imp"] = {"kind": "alias", "runtime": True, "target": "os.path", "resolved": False}
    elif imp == 2:
        e["imp"] = {"kind": "alias", "runtime": False, "target": "os.path", "resolved": False}
    if o in (1, 4):
        e["o"] = {"kind": "function", "runtime": True, "doc": "Runtime doc o." if rt_doc else None, "params": [("a", None)], "returns": None, "overloads": None}
    elif o == 7:
        e["o"] = {"kind": "alias", "runtime": True, "target": "nowhere_at_all.o", "resolved": False}
    elif o == 6:
        e["o"] = {"kind": "function", "runtime": False, "doc": None, "params": [("a", None)], "returns": None, "overloads": ["int", "str"]}
    elif o in (3, 5):
        e["o"] = {"kind": "function", "runtime": True, "doc": "Runtime doc o." if rt_doc else None, "params": [("a", None)], "returns": None, "overloads": ["int", "str"]}
    return e


def _diff(got, exp, path=""):
    """yield (where, field, got, expected)"""
    for n in sorted(set(got) | set(exp)):
        if n not in got:
            yield (path + n, "missing", None, exp[n]["kind"])
        elif n not in exp:
            yield (path + n, "extra", got[n]["kind"], None)
        else:
            g, e = got[n], exp[n]
            for fld in sorted(set(g) | set(e)):
                if fld == "members":
                    yield from _diff(g.get("members", {}), e.get("members", {}), path + n + ".")
                elif g.get(fld) != e.get(fld):
                    yield (path + n, fld, g.get(fld), e.get(fld))


def run_case(griffe, acc, case):
    sv, pl, pat = case
    if sv[0] == "OV":
        return _run_ov(griffe, acc, case)
    if sv[0] == "WS":
        return _run_ws(griffe, acc, case)
    if sv[0] == "OK":
        return _run_ok(griffe, acc, case)
    if sv[0] == "XP":
        return _run_xp(griffe, acc, case)
    files, top, modpath, opts = layout(case)
    results = {}
    cd = {"case": [list(sv), pl, list(pat)], "files": files}
    size = sum(len(v) for v in files.values())
    with sandbox.scratch_dir("c19") as d:
        sandbox.write_tree(d, files)
        for order in ORDERS:
            fn = listing.ascending if order == "asc" else listing.descending
            try:
                with listing.Listing(fn):
                    loader = griffe.GriffeLoader(search_paths=[d], allow_inspection=False)
                    loader.load(top, **opts)
                mod = loader.modules_collection[modpath]
                results[order] = (observe(mod), json.dumps(json.loads(mod.as_json(full=False)), sort_keys=True).replace(d, "<root>"))
            except Exception as e:  # noqa: BLE001
                import traceback

                tb = traceback.extract_tb(e.__traceback__)
                frame = next((f.name for f in reversed(tb) if "_griffe" in f.filename), tb[-1].name)
                slot_status = ",".join(f"{s}:{STATUS[min(v, 4)]}" for s, v in zip("fKxio", sv) if v in (3, 4, 5))
                acc.violation(f"raise/{type(e).__name__}@{frame}/{pl}", f"load with stubs raised {e!r} ({slot_status}, order {order})", cd, None, size=size)
                acc.case(cd, outcome="raise")
                return
        if top != modpath:
            # the same package asked for through one of its modules (`load("pkg.mod", ...)`, another way of entering): the stubs are found and merged all the same
            try:
                loader = griffe.GriffeLoader(search_paths=[d], allow_inspection=False)
                loader.load(modpath, **opts)
                via = observe(loader.modules_collection[modpath])
                if via != results["asc"][0]:
                    dd = next(iter(_diff(via, results["asc"][0])), ("?", "?", None, None))
                    acc.violation(f"entry/requested-by-module/{pl}", f"load({modpath!r}) gives another merge than load({top!r}): {dd[0]} {dd[1]}: {dd[2]!r} vs {dd[3]!r}", cd, None, size=size)
            except Exception as e:  # noqa: BLE001
                acc.violation(f"entry/requested-by-module/raise/{type(e).__name__}/{pl}", f"load({modpath!r}) raised {e!r} where load({top!r}) works", cd, None, size=size)
    both = any(v >= 3 for v in sv)
    acc.case({"case": cd["case"]}, outcome=pl + ":" + ("merge" if both else "no-overlap"), nontrivial=both)
    acc.observe(results["asc"][0])
    if results["asc"][1] != results["desc"][1]:
        acc.violation(f"order/{pl}", "minimal JSON differs between the two directory listing orders (.pyi before / after .py)", cd, None, size=size)
    exp = expected(sv, pat)
    names = {"f": 0, "K": 1, "x": 2, "imp": 3, "o": 4}
    for where, fld, g, e in _diff(results["asc"][0], exp):
        slot = where.split(".")[0]
        st = sv[names[slot]] if slot in names else -1
        status = "stub-overloads+implementation" if (slot == "o" and st == 5) else "stub-only-overloads+implementation" if (slot == "o" and st == 6) else "runtime-unresolvable-alias+stub-overloads" if (slot == "o" and st == 7) else "both+stub-only-parameter" if (slot == "f" and st == 5) else "both+stub-kind-markers" if (slot == "f" and st == 6) else (STATUS[st] if 0 <= st < 5 else "?")
        acc.violation(f"merge/{where}/{status}/{fld}" + (f"/{pl}" if fld in ("missing", "extra") else ""), f"{modpath}.{where} ({status}): {fld} is {g!r}, reference merge says {e!r}", cd, {"placement": pl}, size=size)


# SL: the same package and stubs distribution reached through symbolic links (the `pkg-stubs` entry of the search path links to a directory of another name, the
# package itself is a link, both): the merged tree is the one obtained from plain directories (which the status-vector family judges against the reference merge)
SL_RT = {"pkg/__init__.py": "top = 1\n", "pkg/mod.py": "def f(a, b=1):\n    return 0\nclass K:\n    v = 1\n    def m(self, p):\n        return p\n", "pkg/sub/__init__.py": "", "pkg/sub/deep.py": "def d(x):\n    return x\n"}
SL_ST = {"__init__.pyi": "top: int\n", "mod.pyi": "def f(a: int, b: str = ...) -> bool: ...\ndef g() -> None: ...\nclass K:\n    v: int\n    def m(self, p: int) -> None: ...\n", "sub/__init__.pyi": "",
         "sub/deep.pyi": "def d(x: bytes) -> bytes: ...\n", "extra.pyi": "only_in_stubs: int\n"}
SL_LAYOUTS = {
    "plain": lambda: {**{"site/" + k: v for k, v in SL_RT.items()}, **{"site/pkg-stubs/" + k: v for k, v in SL_ST.items()}},
    "stubs-link-other-name": lambda: {**{"site/" + k: v for k, v in SL_RT.items()}, **{"typings/pkg/" + k: v for k, v in SL_ST.items()}, "site/pkg-stubs": "SYMLINK->../typings/pkg"},
    "stubs-link-same-name": lambda: {**{"site/" + k: v for k, v in SL_RT.items()}, **{"typings/pkg-stubs/" + k: v for k, v in SL_ST.items()}, "site/pkg-stubs": "SYMLINK->../typings/pkg-stubs"},
    "package-link": lambda: {**{"src/" + k: v for k, v in SL_RT.items()}, **{"site/pkg-stubs/" + k: v for k, v in SL_ST.items()}, "site/pkg": "SYMLINK->../src/pkg"},
    "both-links": lambda: {**{"src/" + k: v for k, v in SL_RT.items()}, **{"typings/stubs-of-pkg/" + k: v for k, v in SL_ST.items()}, "site/pkg": "SYMLINK->../src/pkg", "site/pkg-stubs": "SYMLINK->../typings/stubs-of-pkg"},
}


def _sl_summary(mod):
    out = {}

    def rec(o):
        for n, m in sorted(o.members.items()):
            if m.is_alias:
                continue
            row = {"kind": m.kind.value, "runtime": m.runtime}
            if m.is_function:
                row["params"] = [(p.name, None if p.annotation is None else str(p.annotation)) for p in m.parameters]
                row["returns"] = None if m.returns is None else str(m.returns)
            if m.is_attribute:
                row["annotation"] = None if m.annotation is None else str(m.annotation)
            out[m.path] = row
            if m.is_module or m.is_class:
                rec(m)

    rec(mod)
    return out


def _run_symlinks(griffe, acc):
    base = None
    for lname, mk in SL_LAYOUTS.items():
        for order in ORDERS:
            cd = {"family": "symlinks", "layout": lname, "order": order}
            with sandbox.scratch_dir("c19l") as d:
                sandbox.write_tree(d, {k: v for k, v in mk().items() if not v.startswith("SYMLINK->")})
                sandbox.write_tree(d, {k: v for k, v in mk().items() if v.startswith("SYMLINK->")})
                try:
                    with listing.Listing(listing.ascending if order == "asc" else listing.descending):
                        loader = griffe.GriffeLoader(search_paths=[os.path.join(d, "site")], allow_inspection=False)
                        got = _sl_summary(loader.load("pkg", find_stubs_package=True))
                    if lname == "plain":
                        # the same package requested through one of its modules, two and three names deep (the loader's default entry: a path is tried first)
                        for spec in ("pkg.mod", "pkg.sub.deep"):
                            with listing.Listing(listing.ascending if order == "asc" else listing.descending):
                                loader2 = griffe.GriffeLoader(search_paths=[os.path.join(d, "site")], allow_inspection=False)
                                loader2.load(spec, find_stubs_package=True)
                            got2 = _sl_summary(loader2.modules_collection["pkg"])
                            if got2 != got:
                                bad = sorted(k for k in set(got) | set(got2) if got.get(k) != got2.get(k))[0]
                                acc.violation(f"symlinks/requested-through-module/{len(spec.split('.'))}-names", f"load({spec!r}, find_stubs_package=True): {bad} is {got2.get(bad)}, requested as 'pkg' {got.get(bad)}", {**cd, "spec": spec}, None, size=1)
                except Exception as e:  # noqa: BLE001
                    acc.violation(f"symlinks/raise/{type(e).__name__}/{lname}", f"load with the stubs distribution raised {e!r}", cd, None, size=1)
                    continue
            if base is None:
                base = got
            acc.case(cd, outcome="symlinks:" + ("same" if got == base else "differs"), nontrivial=True)
            acc.observe(sorted(got))
            if got != base:
                bad = sorted(k for k in set(got) | set(base) if got.get(k) != base.get(k))[0]
                what = "missing" if bad not in got else "extra" if bad not in base else "annotations"
                acc.violation(f"symlinks/{what}/{lname}", f"layout {lname} ({order}): {bad} is {got.get(bad)}, from plain directories {base.get(bad)}", cd, None, size=1)


def run_shard(shard, tier):
    boot.boot()
    import griffe

    acc = Acc()
    if shard == 0:
        _run_symlinks(griffe, acc)
    for idx, case in enumerate(all_cases(tier)):
        if idx % NSHARDS != shard:
            continue
        try:
            run_case(griffe, acc, case)
        except Exception as e:  # noqa: BLE001
            import traceback

            acc.violation(f"harness-error/{type(e).__name__}@{traceback.extract_tb(e.__traceback__)[-1].name}", repr(e), {"case": [list(case[0]), case[1], list(case[2])]}, {"tb": traceback.format_exc()[-900:]})
    return acc.result()


def replay(case):
    boot.boot()
    import griffe

    acc = Acc()
    if case.get("family") == "symlinks":
        _run_symlinks(griffe, acc)
        return [(k, v["summary"], v["detail"]) for k, v in acc.violations.items()]
    c = case["case"]
    run_case(griffe, acc, (tuple(c[0]), c[1], tuple(c[2])))
    return [(k, v["summary"], v["detail"]) for k, v in acc.violations.items()]
