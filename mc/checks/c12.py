"""C12 — Docstring parsers are total and terminating on arbitrary text.

Space: docstrings are sequences of line tokens drawn from what each parser branches on (section headers of that style, dash
lines, item syntaxes at indents 0/2/4/8, continuations, blank / whitespace-only lines, code fences, doctest lines, prose).
All sequences up to the length bound, x 10 parents (none, module, class, functions with generator / iterator / tuple return annotations incl. tuples inside Generator[...] and a too-short Generator[int],
__init__ of a class, property attribute) x parser options by deviation from the defaults (0, then every single flip,
thorough: every pair).
Oracle: returns a list of DocstringSection with a kind from the enum, a value of the shape the kind declares, JSON-serialisable;
no exception; docstring.value / .lines and the parent's JSON unchanged; texts without section syntax come back as one text
section equal to the cleaned docstring.  Termination is monitored structurally: every section reader is wrapped and must
honour the offset contract its main loop relies on (progress), with a per-text alarm as backstop.
"""
from __future__ import annotations

import inspect
import itertools
import json

from mc.core import boot, sandbox
from mc.core.driver import Acc

PROPERTY = "C12"
LEVEL = "exploration"
NSHARDS = 96
RULE = (
    "all token sequences up to the length bound per style (duplicates after joining removed), each parsed under 10 parents and all option "
    "vectors within the deviation bound; non-trivial = the text contains at least one section-syntax token (header, dash line, field) so that "
    "a reader runs; distinct = distinct joined texts"
)
ASSUMPTIONS = ["token alphabets in mc/checks/c12.py cover every branch condition of the three parsers' main loops and readers (reviewed against the source)",
               "logging is disabled (warnings are not part of the property)"]
MANIFEST = {
    "category": "exploration",
    "text": "Bounded exhaustive enumeration of docstrings as token sequences (length <= 3 over the full alphabet plus length-4 sequences that start with a section header in quick; <= 4 full / 5 header-led in thorough) for each of the Google, Numpy and Sphinx parsers, x 15 parents (three in a file-less module) x all option vectors with <= 1 (quick) / <= 2 (thorough) deviations; totality, section well-formedness, input immutability, and a structural offset-progress monitor on every section reader; family A: 41 annotation texts in every place a style reads an annotation. Parents include a class in an inheritance cycle and a class hanging off one.",
    "note": "Complete over the token alphabet and length bound; arbitrary characters inside tokens are represented by the listed line shapes.",
    "technique": "model checking by exhaustive small-scope enumeration of token sequences on the real parsers with a progress monitor on every reader",
}

COMMON = ["", "   ", "Summary line.", "more prose", "int: summary with a type prefix", "str: see http://a.b/c: details", "```", "    >>> f(1)  # doctest: +SKIP", "    <BLANKLINE>"]
GOOGLE_HEADERS = ["Args:", "Other Parameters:", "Raises:", "Warns:", "Returns:", "Yields:", "Receives:", "Attributes:", "Functions:", "Classes:", "Modules:",
                  "Examples:", "Note:", "Note: Title", "Deprecated:"]
GOOGLE_ITEMS = ["    a: desc", "    a (int): desc", "    *args: desc", "    **kw (dict): d", "    : desc", "    (int): desc", "    int: desc", "    nocolon",
                "        continuation", "  two: spaces", "    f(a, b): desc", "    a (int, optional): d",
                "    x: d\n    y: d\n    z: d", "    :"]
NUMPY_HEADERS = ["Parameters", "Other Parameters", "Raises", "Warns", "Returns", "Yields", "Receives", "Attributes", "Functions", "Classes", "Modules", "Examples",
                 "Deprecated", "Notes", "See Also"]
NUMPY_ITEMS = ["----------", "---", "-", "a : int", "a : int, optional", "a : {1, 2}, default 1", "*args", "**kw : dict", "a", " : int", "int", "    desc indented",
               "        deeper", "1.0", "f(a)", "a, b : int",
               # bare / empty names, and compound tokens (several un-annotated items: more items than the parent's tuple annotation has elements)
               ":", ": int", "x :\n    d", "x :\n    d\ny :\n    d\nz :\n    d"]
SPHINX_FIELDS = [":param a: desc", ":param int a: desc", ":param x y a: d", ":param:", ":param a:", ":type a: int", ":type: int", ":returns: desc", ":return:", ":rtype: int",
                 ":rtype:", ":raises ValueError: d", ":raises: d", ":raise E:", ":var v: d", ":ivar int v: d", ":cvar:", ":vartype v: int", ":type b: str", ":param b: d",
                 "    continuation", ":unknown x: d", ":param a: again", ":keyword k: d", ":key:",
                 # directives without their closing colon (the "invalid directive" path of every reader)
                 ":param a", ":type a", ":returns", ":rtype int", ":raises E", ":var v", ":vartype v",
                 # empty names
                 ":var : d", ":param : d", ":type : int", ":vartype : int", ":raises : d"]

TOKENS = {
    "google": COMMON + GOOGLE_HEADERS + GOOGLE_ITEMS,
    "numpy": COMMON + NUMPY_HEADERS + NUMPY_ITEMS,
    "sphinx": COMMON + SPHINX_FIELDS,
}
HEADERS = {"google": GOOGLE_HEADERS, "numpy": NUMPY_HEADERS, "sphinx": SPHINX_FIELDS}
OPTIONS = {
    "google": ["ignore_init_summary", "trim_doctest_flags", "returns_multiple_items", "returns_named_value", "returns_type_in_property_summary",
               "receives_multiple_items", "receives_named_value", "warn_unknown_params"],
    "numpy": ["ignore_init_summary", "trim_doctest_flags", "warn_unknown_params"],
    "sphinx": ["warn_unknown_params"],
}
PARENT_SRC = '''
from typing import Iterator, Generator
from nowhere_to_be_found import a, x
from m import v as cyc
from m import cyc as v
class K:
    v: int = 0
    def __init__(self, a: int, *args, b=1, **kw): ...
    @property
    def prop(self) -> tuple[int, str]: ...
def f(a: int, *args, b=1, **kw) -> Generator[tuple[int, str], str, int]: ...
def g(a, b: "str" = "x") -> Iterator[int]: ...
def h(a: int, v) -> tuple[int, str]: ...
def g2(a) -> Generator[tuple[int], tuple[int, str], tuple[int, str]]: ...
def g3(a) -> Generator[int]: ...
class W:
    from nowhere_to_be_found import init as __init__
class WC(W): ...
class CA(CB): ...
class CB(CA):
    w: int = 0
class CC(CB):
    w2: int = 0
    def __init__(self, a: int): ...
'''
# family A: every annotation text in every place a style reads an annotation from, under every parent
ANNOTATIONS = ["int", "a.b", "list[int]", "int | None", "await x", "yield", "yield x", "lambda: 0", "x := 1", "*a", "1 +", "not a type", "'quoted'", "f(x)", "a if b else c",
               "[i for i in y]", "", " ", "...", "None", "dict[str, (int, str)]", "a, b", "int, optional", "{1, 2}", "x[", ")", "a: b", "-> int", "typing.Literal['a b']",
               "Generator[int, str, None]", "\\", "#", "a\tb", "0", "-1", "a.", ".a", "a..b", "async", "import x", "x = 1"]
ANN_TEMPLATES = {
    "google": ["Args:\n    a ({A}): desc", "Other Parameters:\n    k ({A}): desc", "Returns:\n    {A}: desc", "Returns:\n    name ({A}): desc", "Yields:\n    {A}: desc", "Receives:\n    {A}: desc",
               "Raises:\n    {A}: desc", "Warns:\n    {A}: desc", "Attributes:\n    v ({A}): desc", "Args:\n    a ({A}, optional): desc"],
    "numpy": ["Parameters\n----------\na : {A}\n    desc", "Other Parameters\n----------------\nk : {A}\n    desc", "Returns\n-------\n{A}\n    desc", "Returns\n-------\nname : {A}\n    desc",
              "Yields\n------\n{A}\n    desc", "Receives\n--------\n{A}\n    desc", "Raises\n------\n{A}\n    desc", "Warns\n-----\n{A}\n    desc", "Attributes\n----------\nv : {A}\n    desc",
              "Parameters\n----------\na : {A}, default 1\n    desc"],
    "sphinx": [":param a: desc\n:type a: {A}", ":param {A} a: desc", ":returns: desc\n:rtype: {A}", ":raises {A}: desc", ":var v: desc\n:vartype v: {A}", ":ivar {A} v: desc", ":rtype: {A}", ":type a: {A}"],
}
PARENTS = ["module-fileless", "function-fileless", "class-fileless", "init-parentless", "none", "module", "class", "function", "init", "property", "function-iter", "function-tuple", "function-gen-tuples", "function-gen-short", "class-init-unresolvable", "class-init-unresolvable-inherited",
           # a class IN an inheritance cycle (the name of its base is re-bound later in the module) and a class hanging off that cycle
           "class-in-cycle", "class-off-cycle"]

# plan: list of ((tokens over the full alphabet, tokens after a header), option deviations); later entries only add what earlier ones lack
_PLAN = {"quick": [((2, 2), 1)], "thorough": [((3, 3), 0), ((3, 2), 1), ((2, 2), 2)]}


def bounds(tier):
    return {"tokens": {k: len(v) for k, v in TOKENS.items()}, "plan": [{"max_len_full_alphabet": l[0], "max_tokens_after_header": l[1], "option_deviations": d} for l, d in _PLAN[tier]],
            "parents": PARENTS, "annotation_family": {"annotations": len(ANNOTATIONS), "templates": {k: len(v) for k, v in ANN_TEMPLATES.items()}}}


def sequences(style, lens):
    toks = TOKENS[style]
    full, after = lens
    for n in range(0, full + 1):
        yield from itertools.product(range(len(toks)), repeat=n)
    heads = [toks.index(h) for h in HEADERS[style]]
    summary, blank = toks.index("Summary line."), toks.index("")
    # a section header first, or in its well-formed position (after a summary and a blank line), followed by <= `after` tokens
    for prefix in ((), (summary, blank)):
        for h in heads:
            for n in range(0 if prefix else full, after + 1):
                for rest in itertools.product(range(len(toks)), repeat=n):
                    yield (*prefix, h, *rest)


def option_vectors(style, dev):
    names = OPTIONS[style]
    yield {}
    for k in range(1, dev + 1):
        for combo in itertools.combinations(names, k):
            yield {n: None for n in combo}  # None = flip the default


def shards(tier):
    return [(style, i) for style in ("google", "numpy", "sphinx") for i in range(NSHARDS // 3)]


_env: dict = {}


class OffsetViolation(Exception):
    pass


def _setup():
    if _env:
        return _env
    boot.boot()
    import griffe
    from _griffe.docstrings import google, numpy, sphinx
    from _griffe.encoders import JSONEncoder

    def wrap(fn, slack, name):
        def inner(docstring, *a, **kw):
            passed = kw["offset"] if "offset" in kw else a[0]
            res = fn(docstring, *a, **kw)
            new = res if isinstance(res, int) else res[1]
            if new < passed - slack or new > len(docstring.lines) + 1:
                raise OffsetViolation(f"{name}: passed offset {passed}, returned {new}, {len(docstring.lines)} lines")
            return res
        return inner

    for kind, fn in list(google._section_reader.items()):
        google._section_reader[kind] = wrap(fn, 1, "google." + fn.__name__)
    for kind, fn in list(numpy._section_reader.items()):
        numpy._section_reader[kind] = wrap(fn, 2, "numpy." + fn.__name__)
    new_types = []
    for ft in sphinx._field_types:
        new_types.append(type(ft)(ft.names, wrap(ft.reader, 0, "sphinx." + ft.reader.__name__)))
    sphinx._field_types[:] = new_types

    from pathlib import Path

    coll = griffe.ModulesCollection()
    mod = griffe.visit("m", filepath=Path("m.py"), code=PARENT_SRC, modules_collection=coll)
    coll.set_member("m", mod)  # (base classes are looked up through the collection)
    parents = {
        "none": None, "module": mod, "class": mod["K"], "function": mod["f"], "init": mod["K.__init__"], "property": mod["K.prop"],
        "function-iter": mod["g"], "function-tuple": mod["h"], "function-gen-tuples": mod["g2"], "function-gen-short": mod["g3"], "class-init-unresolvable": mod["W"], "class-init-unresolvable-inherited": mod["WC"],
        "class-in-cycle": mod["CB"], "class-off-cycle": mod["CC"],
    }
    # parents living in a module without a file (what inspection of a built-in / compiled module produces)
    inmem = griffe.Module("inmemory")
    inmem_f = griffe.Function("f", parameters=griffe.Parameters(griffe.Parameter("a", annotation="int")), returns="int")
    inmem.set_member("f", inmem_f)
    inmem_k = griffe.Class("K")
    inmem.set_member("K", inmem_k)
    parents.update({"module-fileless": inmem, "function-fileless": inmem_f, "class-fileless": inmem_k})
    # a function called __init__ that belongs to nothing (an object built by hand, as extensions and tests do)
    parents["init-parentless"] = griffe.Function("__init__", parameters=griffe.Parameters(griffe.Parameter("self"), griffe.Parameter("a", annotation="int")))
    defaults = {}
    for style, fn in (("google", google.parse_google), ("numpy", numpy.parse_numpy), ("sphinx", sphinx.parse_sphinx)):
        sig = inspect.signature(fn)
        defaults[style] = {n: sig.parameters[n].default for n in OPTIONS[style]}
    from _griffe.docstrings import models as dm

    shape = {
        "text": str, "parameters": dm.DocstringParameter, "other parameters": dm.DocstringParameter, "raises": dm.DocstringRaise, "warns": dm.DocstringWarn,
        "returns": dm.DocstringReturn, "yields": dm.DocstringYield, "receives": dm.DocstringReceive, "attributes": dm.DocstringAttribute,
        "functions": dm.DocstringFunction, "classes": dm.DocstringClass, "modules": dm.DocstringModule, "admonition": dm.DocstringAdmonition,
    }
    _env.update(griffe=griffe, mod=mod, parents=parents, defaults=defaults, enc=JSONEncoder, shape=shape, dm=dm,
                fns={"google": google.parse_google, "numpy": numpy.parse_numpy, "sphinx": sphinx.parse_sphinx})
    return _env


def _check_sections(env, sections):
    g = env["griffe"]
    if not isinstance(sections, list):
        return "shape/not-a-list"
    for s in sections:
        if not isinstance(s, g.DocstringSection):
            return f"shape/not-a-section/{type(s).__name__}"
        if not isinstance(s.kind, g.DocstringSectionKind):
            return "shape/kind-not-enum"
        k = s.kind.value
        v = s.value
        exp = env["shape"].get(k)
        if k == "text":
            if not isinstance(v, str):
                return "shape/text-value"
        elif k == "admonition":
            if not isinstance(v, exp) or not isinstance(v.description, str):
                return "shape/admonition-value"
        elif k == "examples":
            if not (isinstance(v, list) and all(isinstance(t, tuple) and len(t) == 2 and isinstance(t[1], str) for t in v)):
                return "shape/examples-value"
        elif k == "deprecated":
            if not isinstance(v, env["dm"].DocstringDeprecated):
                return "shape/deprecated-value"
        else:
            if not (isinstance(v, list) and all(isinstance(i, exp) for i in v)):
                return f"shape/{k}-value"
            for i in v:
                if not isinstance(i.description, str):
                    return f"shape/{k}-item-description"
        try:
            json.dumps(s.as_dict(), cls=env["enc"])
        except Exception as e:  # noqa: BLE001
            return f"shape/{k}-not-serialisable/{type(e).__name__}"
    return None


def _is_prose_only(style, seq):
    toks = TOKENS[style]
    plain = {"", "   ", "Summary line.", "more prose"}  # (lines with colons may legitimately be read as admonitions/fields)
    return all(toks[i] in plain for i in seq)


def _ngram(style, seq, pos=None):
    toks = TOKENS[style]
    return " | ".join(toks[i].strip() or "<blank>" for i in seq[:4])


def run_shard(shard, tier):
    style, part = shard
    nparts = NSHARDS // 3
    env = _setup()
    g = env["griffe"]
    acc = Acc()
    fn = env["fns"][style]
    defaults = env["defaults"][style]
    toks = TOKENS[style]
    seen_texts = set()
    mod_json0 = env["mod"].as_json(full=False)
    headers = set(HEADERS[style]) | {"----------", "---", "-"}
    work = []
    for lens, dev in _PLAN[tier]:
        vecs = [{n: (not defaults[n]) for n in ov} for ov in option_vectors(style, dev)]
        work.append((lens, vecs))
    for pi, (lens, vectors) in enumerate(work):
      if pi > 0:
          seen_texts = set()
          done_vecs = [tuple(sorted(v.items())) for earlier in work[:pi] for v in earlier[1]]  # earlier passes cover a superset of these texts
          vectors = [v for v in vectors if tuple(sorted(v.items())) not in done_vecs]
          if not vectors:
              continue
      for idx, seq in enumerate(sequences(style, lens)):
        if idx % nparts != part:
            continue
        text = "\n".join(toks[i] for i in seq)
        if text in seen_texts:
            continue
        seen_texts.add(text)
        nontrivial = any(toks[i] in headers for i in seq)
        outcomes = set()
        try:
            with sandbox.time_limit(20):
                for pname, parent in env["parents"].items():
                    for opts in vectors:
                        if opts and pname not in ("none", "function", "init", "property", "init-parentless"):
                            continue  # non-default options are exercised on the parents they can interact with
                        ds = g.Docstring(text, lineno=1, parent=parent)
                        value0, lines0 = ds.value, list(ds.lines)
                        try:
                            sections = fn(ds, **opts)
                        except OffsetViolation as e:
                            acc.violation(f"offset/{str(e).split(':')[0]}", f"{style}: {e} on {text!r}", {"style": style, "text": text, "parent": pname, "options": opts}, None, size=len(seq))
                            outcomes.add("offset")
                            continue
                        except Exception as e:  # noqa: BLE001
                            import traceback

                            tb = traceback.extract_tb(e.__traceback__)
                            frame = next((f.name for f in reversed(tb) if "docstrings" in f.filename), tb[-1].name)
                            acc.violation(f"raise/{type(e).__name__}@{style}.{frame}", f"{style} parser raised {type(e).__name__}: {e} on {text!r} (parent={pname}, options={opts})",
                                          {"style": style, "text": text, "parent": pname, "options": opts}, None, size=len(seq) * 10 + len(opts))
                            outcomes.add("raise")
                            continue
                        bad = _check_sections(env, sections)
                        if bad:
                            acc.violation(f"{bad}/{style}", f"{style}: malformed section ({bad}) for {text!r}", {"style": style, "text": text, "parent": pname, "options": opts}, None, size=len(seq))
                        if style == "numpy":
                            # every section other than free text was opened by a header line with its underline: no more sections than underlines
                            n_under = sum(1 for l in text.split("\n") if l.strip() and set(l.strip()) == {"-"})
                            n_sec = sum(1 for sct in sections if sct.kind.value != "text")
                            if n_sec > n_under:
                                acc.violation("phantom-section/numpy", f"numpy: {n_sec} non-text sections ({[sct.kind.value for sct in sections]}) from a text with {n_under} underlined header(s): {text!r}",
                                              {"style": style, "text": text, "parent": pname, "options": opts}, None, size=len(seq))
                        if ds.value != value0 or ds.lines != lines0:
                            acc.violation(f"mutated/docstring/{style}", f"{style}: docstring value/lines changed by parsing {text!r}", {"style": style, "text": text, "parent": pname, "options": opts}, None, size=len(seq))
                        outcomes.add(",".join(s.kind.value[:4] for s in sections) if len(sections) < 4 else f"{len(sections)}sections")
                        if not opts and _is_prose_only(style, seq):
                            cleaned = inspect.cleandoc(text)
                            norm = lambda t: "\n".join(l.rstrip() for l in t.split("\n")).strip("\n")  # noqa: E731
                            if not cleaned.strip():
                                ok = sections == [] or (len(sections) == 1 and sections[0].kind.value == "text" and not sections[0].value.strip())
                            else:
                                ok = len(sections) == 1 and sections[0].kind.value == "text" and norm(sections[0].value) == norm(cleaned)
                            if not ok:
                                acc.violation(f"prose/{style}", f"{style}: text without section syntax {text!r} came back as {[(s.kind.value, s.value) for s in sections]!r}",
                                              {"style": style, "text": text, "parent": pname, "options": opts}, None, size=len(seq))
        except sandbox.CaseTimeout:
            acc.violation(f"hang/{style}", f"{style}: no result within 20 s for {text!r}", {"style": style, "text": text}, None, size=len(seq))
            outcomes.add("hang")
        acc.case({"style": style, "text": text}, outcome=style + ":" + ("raise" if "raise" in outcomes else "ok"), nontrivial=nontrivial)
        acc.observe(sorted(outcomes))
        acc.counters["parses"] += len(env["parents"]) + 4 * (len(vectors) - 1)
    if part == 0:
        _run_annotations(env, acc, style, tier)
        _run_line_separators(env, acc, style)
        _run_reparse(env, acc, style)
        _run_section_sequences(env, acc, style)
    if env["mod"].as_json(full=False) != mod_json0:
        acc.violation(f"mutated/parent/{style}", f"{style}: the parent objects' JSON changed while parsing (shard {part})", {"style": style, "shard": part})
    return acc.result()


LINE_SEPARATORS = ["\r\n", "\r", "\x0c", "\x0b", "\x1c", "\x85", "\u2028", "\u2029"]


def _run_line_separators(env, acc, style):
    """Prose containing characters that str.splitlines() treats as line ends but that are not "\n": no section syntax, so the text comes back as written."""
    g = env["griffe"]
    fn = env["fns"][style]
    for sep in LINE_SEPARATORS:
        for text in (f"First{sep}second.", f"Summary.\n\nBody one{sep}body two.\n", f"{sep}Lead."):
            case = {"style": style, "text": text, "family": "line-separators"}
            ds = g.Docstring(text, lineno=1, parent=None)
            try:
                sections = fn(ds)
            except Exception as e:  # noqa: BLE001
                acc.violation(f"raise/{type(e).__name__}@{style}/line-separators", f"{style} parser raised {e!r} on {text!r}", case, None, size=3)
                continue
            cleaned = inspect.cleandoc(text)
            got = "\n\n".join(s.value for s in sections if s.kind.value == "text") if all(s.kind.value == "text" for s in sections) else None
            # (Sphinx and Google may split the prose into several text sections at blank lines; joined back they are the cleaned text)
            norm = lambda t: "\n".join(l.rstrip(" ") for l in t.split("\n")).strip("\n")  # noqa: E731
            ok = got is not None and norm(got) == norm(cleaned)
            acc.case(case, outcome=style + ":" + ("ok" if ok else "diff"), nontrivial=True)
            acc.observe([s.kind.value for s in sections])
            if not ok:
                acc.violation(f"prose/{style}/line-separator/{sep.encode('unicode_escape').decode()}", f"{style}: prose {text!r} came back as {[(s.kind.value, s.value) for s in sections]!r}, the cleaned text is {cleaned!r}", case, None, size=3)


REPARSE_TEXTS = {
    "google": ["Summary.\n\nArgs:\n    a: desc\n\nReturns:\n    int: desc", "Only prose now.", "Other.\n\nRaises:\n    ValueError: d", ""],
    "numpy": ["Summary.\n\nParameters\n----------\na : int\n    desc\n\nReturns\n-------\nint\n    desc", "Only prose now.", "Other.\n\nRaises\n------\nValueError\n    d", ""],
    "sphinx": ["Summary.\n\n:param a: desc\n:returns: desc", "Only prose now.", "Other.\n\n:raises ValueError: d", ""],
}


def _run_reparse(env, acc, style):
    """The same Docstring object parsed again after its value was replaced (what editing extensions do): the second answer is the one a fresh object gives for the new text."""
    g = env["griffe"]
    fn = env["fns"][style]
    texts = REPARSE_TEXTS[style]
    dump = lambda secs: json.dumps([s.as_dict() for s in secs], cls=env["enc"], sort_keys=True)  # noqa: E731
    for pname in ("none", "function"):
        parent = env["parents"][pname]
        for t1 in texts:
            for t2 in texts:
                if t1 == t2:
                    continue
                case = {"style": style, "family": "reparse", "first": t1, "second": t2, "parent": pname}
                try:
                    ds = g.Docstring(t1, lineno=1, parent=parent)
                    fn(ds)
                    ds.value = t2
                    again = dump(fn(ds))
                    fresh = dump(fn(g.Docstring(t2, lineno=1, parent=parent)))
                except Exception as e:  # noqa: BLE001
                    acc.violation(f"raise/{type(e).__name__}@{style}/reparse", f"{style}: parsing again after replacing the value raised {e!r}", case, None, size=3)
                    continue
                acc.case(case, outcome=style + ":reparse-" + ("same" if again == fresh else "stale"), nontrivial=True)
                acc.observe(again == fresh)
                if again != fresh:
                    acc.violation(f"reparse/{style}/stale", f"{style}: after docstring.value = {t2!r} the second parse gives {again[:160]}, a fresh docstring gives {fresh[:160]}", case, None, size=3)


def _run_section_sequences(env, acc, style):
    """Two and three well-separated sections in a row, every ordered choice of headers (admonition-style ones included): state kept by the parser's main loop
    from one section must not leak into the next (no section that the text does not open)."""
    if style == "sphinx":
        return
    g = env["griffe"]
    fn = env["fns"][style]
    heads = NUMPY_HEADERS if style == "numpy" else [h for h in GOOGLE_HEADERS if h != "Note: Title"]

    def block(h):
        if style == "numpy":
            return f"{h}\n{'-' * len(h)}\na : int\n    desc"
        return f"{h}\n    a (int): desc"

    combos = [(a, b) for a in heads for b in heads] + [(a, b, c) for a in heads for b in heads for c in heads if a in ("Notes", "See Also", "Note:", "Examples", "Examples:")]
    for combo in combos:
        text = "Summary line.\n\n" + "\n\n".join(block(h) for h in combo)
        case = {"style": style, "family": "section-sequences", "text": text}
        try:
            sections = fn(g.Docstring(text, lineno=1, parent=env["parents"]["function"]))
        except Exception as e:  # noqa: BLE001
            acc.violation(f"raise/{type(e).__name__}@{style}/section-sequences", f"{style} parser raised {e!r} on {text!r}", case, None, size=len(combo))
            continue
        bad = _check_sections(env, sections)
        if bad:
            acc.violation(f"{bad}/{style}", f"{style}: malformed section ({bad}) for {text!r}", case, None, size=len(combo))
        n_sec = sum(1 for sct in sections if sct.kind.value != "text")
        acc.case(case, outcome=f"{style}:sequence-{'ok' if n_sec <= len(combo) else 'phantom'}", nontrivial=True)
        acc.observe([sct.kind.value for sct in sections])
        if n_sec > len(combo):
            acc.violation(f"phantom-section/{style}", f"{style}: {n_sec} non-text sections ({[sct.kind.value for sct in sections]}) from a text that opens {len(combo)}: {text!r}", case, None, size=len(combo))


def _run_annotations(env, acc, style, tier):
    g = env["griffe"]
    fn = env["fns"][style]
    defaults = env["defaults"][style]
    vectors = [{n: (not defaults[n]) for n in ov} for ov in option_vectors(style, 1 if tier == "quick" else 2)]
    for tpl in ANN_TEMPLATES[style]:
        for ann in ANNOTATIONS:
            for lead in ("Summary.\n\n", ""):
                text = lead + tpl.replace("{A}", ann)
                outcomes = set()
                try:
                    with sandbox.time_limit(20):
                        for pname, parent in env["parents"].items():
                            for opts in vectors:
                                if opts and pname not in ("none", "function", "function-fileless", "property", "init-parentless"):
                                    continue
                                case = {"style": style, "text": text, "parent": pname, "options": opts}
                                ds = g.Docstring(text, lineno=1, parent=parent)
                                value0 = ds.value
                                try:
                                    sections = fn(ds, **opts)
                                except OffsetViolation as e:
                                    acc.violation(f"offset/{str(e).split(':')[0]}", f"{style}: {e} on {text!r}", case, None, size=5)
                                    continue
                                except Exception as e:  # noqa: BLE001
                                    import traceback

                                    tb = traceback.extract_tb(e.__traceback__)
                                    frame = next((f.name for f in reversed(tb) if "docstrings" in f.filename), tb[-1].name)
                                    acc.violation(f"raise/{type(e).__name__}@{style}.{frame}", f"{style} parser raised {type(e).__name__}: {e} on {text!r} (parent={pname}, options={opts})", case, None,
                                                  size=50 + len(opts))
                                    outcomes.add("raise")
                                    continue
                                bad = _check_sections(env, sections)
                                if bad:
                                    acc.violation(f"{bad}/{style}", f"{style}: malformed section ({bad}) for {text!r}", case, None, size=5)
                                if ds.value != value0:
                                    acc.violation(f"mutated/docstring/{style}", f"{style}: docstring value changed by parsing {text!r}", case, None, size=5)
                                outcomes.add(",".join(s.kind.value[:4] for s in sections))
                                acc.counters["parses"] += 1
                except sandbox.CaseTimeout:
                    acc.violation(f"hang/{style}", f"{style}: no result within 20 s for {text!r}", {"style": style, "text": text}, None, size=5)
                acc.case({"style": style, "text": text}, outcome=style + ":" + ("raise" if "raise" in outcomes else "ok"), nontrivial=True)
                acc.observe(sorted(outcomes))


def replay(case):
    env = _setup()
    g = env["griffe"]
    acc = Acc()
    style = case["style"]
    fn = env["fns"][style]
    parent = env["parents"][case.get("parent", "none")]
    ds = g.Docstring(case["text"], lineno=1, parent=parent)
    out = []
    try:
        with sandbox.time_limit(20):
            sections = fn(ds, **case.get("options", {}))
        bad = _check_sections(env, sections)
        if bad:
            out.append((f"{bad}/{style}", "malformed section", None))
    except OffsetViolation as e:
        out.append((f"offset/{str(e).split(':')[0]}", str(e), None))
    except sandbox.CaseTimeout:
        out.append((f"hang/{style}", "hang", None))
    except Exception as e:  # noqa: BLE001
        import traceback

        tb = traceback.extract_tb(e.__traceback__)
        frame = next((f.name for f in reversed(tb) if "docstrings" in f.filename), tb[-1].name)
        out.append((f"raise/{type(e).__name__}@{style}.{frame}", repr(e), None))
    return out
