"""C06 — Alias resolution is total, all-or-nothing and cycle-safe on any import graph.

G4 graphs over FOUR modules pkg/{__init__, a, b, c} with exactly one statement each (chains and cycles of length 4, a tail alias
   entering a cycle from outside, wildcards feeding a cycle).
G  graphs: modules pkg/{__init__, a, b}; every module is an ordered selection of statements from
   {def n, from pkg.a|pkg.b|pkg import n, from . import n, from pkg.a|pkg.b|pkg import * (self-wildcards included),
    from pkg.nope import n, import pkg.nope, __all__ = ['n']}; ALL graphs with <= 3 (quick) / 4 (thorough) statements in
   total (<= 2 / 3 per module), names {x} (thorough: {x, y} up to 3 statements).  Cycles, self-imports and dangling targets
   are all inside the space.
H  histories (explicit-state BFS): two packages P and Q that import from each other and from a missing R, loaded into ONE
   collection; operations load(P), load(Q), resolve_aliases(implicit x external); every history up to depth 4 / 5.
In every reached state, under a 10 s alarm and the default recursion limit:
  I1 load / resolve_aliases return and raise nothing
  I2 touching resolved/target/final_target/kind/has_docstring/is_public/lineno/members/as_json() on every alias either returns
     or raises AliasResolutionError / CyclicAliasError — nothing else, no hang
  I3 all-or-nothing: alias.resolved  =>  final_target returns a non-alias object
  I4 fixpoint: a second resolve_aliases() leaves every (resolved, target_path) unchanged and returns the same unresolved set
A failing graph is reduced by deleting statements while the same failure persists and keyed by what remains.
"""
from __future__ import annotations

import hashlib
import itertools
import os

from mc.core import boot, sandbox
from mc.core.driver import Acc

PROPERTY = "C06"
LEVEL = "model_checking"
NSHARDS = 64
RULE = (
    "all import graphs over 3 modules within the statement budget and over 4 modules with one statement each (every graph is loaded, resolved, resolved again and every alias dereferenced), "
    "plus an explicit-state BFS over load/resolve histories of two mutually importing packages in one collection; states = distinct canonical "
    "(alias path, target_path, resolved) tables reached; non-trivial graphs contain at least one import statement"
)
ASSUMPTIONS = ["default recursion limit (1000) and a 10 s alarm per graph define 'overflows the stack' / 'loops'", "names x, y and modules a, b stand for all others"]
MANIFEST = {
    "category": "model_checking",
    "text": "Exhaustive enumeration of all import graphs (cycles, self-imports, self-wildcards, dangling targets) on three modules within a statement budget and on four modules with one statement each, and explicit-state BFS over all load/resolve histories (depth 4 quick / 5 thorough; four file sets) of mutually importing packages sharing a collection, plus single statements and pairs as file-less modules (visited from a string, rebuilt from JSON); invariants I1-I4 (totality, error family, all-or-nothing, fixpoint) evaluated on the real loader in every state. A fifth file set stages three packages (a wildcard import of a re-exporting module, then a package whose wildcard import displaces the function at the end of the chain), and the dereference invariants are evaluated again in the state the two resolutions leave behind. A sixth file set has a four-link alias chain whose end is displaced by a dangling wildcard alias.",
    "note": "Bounded by the statement budget / history depth in the evidence; every transition is an implementation call, there is no separate model to validate.",
    "technique": "explicit-state model checking over import graphs and load/resolve histories on the real loader with invariants",
}

MODS = ["pkg", "pkg.a", "pkg.b", "pkg.c"]  # a graph is a tuple of statement tuples, one per module (3 or 4 modules)
FILES = {"pkg": "pkg/__init__.py", "pkg.a": "pkg/a.py", "pkg.b": "pkg/b.py", "pkg.c": "pkg/c.py"}


def menu4():
    """Four modules, at most one statement each: chains and cycles of length 4 with a tail entering from outside."""
    return ["def x(): ...", "from pkg.a import x", "from pkg.b import x", "from pkg.c import x", "from pkg import x", "from . import x", "from pkg.nope import x",
            "from pkg.a import *", "from pkg.b import *", "from pkg.c import *", "from pkg import *", "__all__ = ['x']"]


def menu(names):
    m = []
    for n in names:
        m += [f"def {n}(): ...", f"from pkg.a import {n}", f"from pkg.b import {n}", f"from pkg import {n}", f"from . import {n}", f"from pkg.nope import {n}", f"__all__ = ['{n}']"]
    m += ["from pkg.a import *", "from pkg.b import *", "from pkg import *", "import pkg.nope"]
    # imports whose path goes THROUGH a name of another module (which may be an alias: dangling, cyclic or fine)
    m += [f"from pkg.a.{names[0]} import {names[0]}", f"from pkg.b.{names[0]}.sub import *"]
    # a name bound to a MODULE (alias of a module), wildcard imports and __all__ lists going through such a name
    m += [f"from pkg import a as {names[0]}", f"from pkg import b as {names[0]}", f"from pkg.a.{names[0]} import *", f"__all__ = ['{names[0]}', *{names[0]}.__all__]"]
    return m


_BUDGET = {"quick": [(("x",), 3, 2)], "thorough": [(("x",), 4, 3), (("x", "y"), 3, 2)]}


def bounds(tier):
    return {"graphs": [{"names": list(n), "total_statements": t, "per_module": p} for n, t, p in _BUDGET[tier]],
            "four_module_graphs": {"statements_per_module": 1, "menu": menu4()}, "history_depth": 4 if tier == "quick" else 5,
            "statement_menu": menu(("x",))}


def graphs(tier):
    seen = set()
    for names, total, per in _BUDGET[tier]:
        m = menu(names)
        sels = {k: list(itertools.permutations(range(len(m)), k)) for k in range(per + 1)}
        for n0 in range(per + 1):
            for n1 in range(per + 1):
                for n2 in range(per + 1):
                    if n0 + n1 + n2 > total:
                        continue
                    for s0 in sels[n0]:
                        for s1 in sels[n1]:
                            for s2 in sels[n2]:
                                g = (tuple(m[i] for i in s0), tuple(m[i] for i in s1), tuple(m[i] for i in s2))
                                if g in seen:
                                    continue
                                if len(names) > 1:
                                    seen.add(g)
                                yield g
    m4 = [()] + [(st,) for st in menu4()]
    for g in itertools.product(m4, repeat=4):
        if sum(map(len, g)) == 4 or (tier == "thorough" and g[3]):
            yield g  # (smaller ones over three modules are already in the first family)


def shards(tier):
    return [("G", i) for i in range(NSHARDS)] + [("H", 0), ("H", 1), ("H", 2), ("H", 3), ("H", 4), ("H", 5), ("F", 0)]


ERRS = None


def _touch_all(griffe, loader, viols, where):
    """I2 + I3 over every alias reachable from the collection. Returns the canonical alias table."""
    table = []
    ok_errors = (griffe.AliasResolutionError, griffe.CyclicAliasError)

    def visit(obj, depth=0):
        for name, m in list(obj.members.items()):
            if m.is_alias:
                res = m.resolved
                row = [m.path, m.target_path, res]
                for acc_name in ("target", "final_target", "kind", "has_docstring", "has_docstrings", "is_public", "lineno", "members", "as_json"):
                    try:
                        v = getattr(m, acc_name)
                        if acc_name == "as_json":
                            v = v()
                        if acc_name == "final_target":
                            if v.is_alias:
                                viols.append(("partial/final_target-is-alias", f"{m.path}.final_target is an alias", where))
                            row.append(v.path)
                    except ok_errors as e:
                        if acc_name == "final_target":
                            row.append(type(e).__name__)
                            if res:
                                # root cause attribution: does the chain pass through an alias that wildcard expansion created born-resolved?
                                created = getattr(loader, "_verif_expanded", ())
                                link, hops, creator = m, 0, "resolution"
                                while isinstance(link, griffe.Alias) and hops < 20:
                                    if any(link is a for a in created):
                                        creator = "wildcard-expansion"
                                        break
                                    link, hops = link._target, hops + 1
                                viols.append((f"partial/resolved-but-{type(e).__name__}/{creator}", f"alias {m.path} -> {m.target_path} says resolved=True but final_target raises {type(e).__name__}", where))
                    except RecursionError:
                        viols.append((f"raise/RecursionError@alias.{acc_name}", f"alias {m.path}.{acc_name} overflowed the stack", where))
                    except Exception as e:  # noqa: BLE001
                        viols.append((f"raise/{type(e).__name__}@alias.{acc_name}", f"alias {m.path}.{acc_name} raised {e!r}", where))
                table.append(tuple(row))
            elif m.is_module or m.is_class:
                if depth < 6:
                    visit(m, depth + 1)

    for mod in list(loader.modules_collection.members.values()):
        visit(mod)
    return tuple(sorted(map(str, table)))


def _passive(griffe, loader):
    """(path, target_path, resolved) of every alias, read without triggering any resolution."""
    rows = []

    def visit(obj, depth=0):
        for m in list(obj.members.values()):
            if m.is_alias:
                rows.append((m.path, m.target_path, m._target is not None))
            elif depth < 6 and (m.is_module or m.is_class):
                visit(m, depth + 1)

    for mod in list(loader.modules_collection.members.values()):
        visit(mod)
    return sorted(rows)


def _new_loader(griffe, d):
    """A loader whose wildcard-created aliases are recorded (strong references) through the documented extension hook."""
    created = []

    class Rec(griffe.Extension):
        def on_wildcard_expansion(self, *, alias, **kwargs):
            created.append(alias)

    loader = griffe.GriffeLoader(search_paths=[d], allow_inspection=False, extensions=griffe.load_extensions(Rec()))
    loader._verif_expanded = created
    return loader


def _frame(e):
    import traceback

    tb = traceback.extract_tb(e.__traceback__)
    return next((f.name for f in reversed(tb) if "_griffe" in f.filename), tb[-1].name)


def check_graph(griffe, g):
    """-> list of (key-base, summary)"""
    viols = []
    files = {FILES[m]: "\n".join(stmts) + "\n" for m, stmts in zip(MODS, g)}
    with sandbox.scratch_dir("c06") as d:
        sandbox.write_tree(d, files)
        try:
            with sandbox.time_limit(10):
                loader = _new_loader(griffe, d)
                try:
                    loader.load("pkg")
                except Exception as e:  # noqa: BLE001
                    return [(f"raise/{type(e).__name__}@{_frame(e)}/load", f"load() raised {e!r}")]
                try:
                    unresolved1, _ = loader.resolve_aliases(implicit=True, external=False)
                except Exception as e:  # noqa: BLE001
                    return [(f"raise/{type(e).__name__}@{_frame(e)}/resolve_aliases", f"resolve_aliases() raised {e!r}")]
                snap1 = _passive(griffe, loader)
                try:
                    unresolved2, _ = loader.resolve_aliases(implicit=True, external=False)
                except Exception as e:  # noqa: BLE001
                    return [(f"raise/{type(e).__name__}@{_frame(e)}/second-resolve_aliases", f"second resolve_aliases() raised {e!r}")]
                snap2 = _passive(griffe, loader)
                if snap1 != snap2 or unresolved1 != unresolved2:
                    diff = [r for r in snap2 if r not in snap1][:3]
                    viols.append(("fixpoint/changed-by-second-resolution", f"second resolve_aliases changed (resolved, target_path) of {diff} or the unresolved set ({sorted(unresolved1)} -> {sorted(unresolved2)})", None))
                _touch_all(griffe, loader, viols, None)
        except sandbox.CaseTimeout:
            return [("hang/10s", "no result within 10 s")]
        except RecursionError:
            return [("raise/RecursionError@loader", "stack overflow in load/resolve")]
    return [(k, s) for k, s, _w in viols]


def _reduce(griffe, g, key):
    changed = True
    while changed:
        changed = False
        for mi in range(len(g)):
            for si in range(len(g[mi])):
                g2 = tuple(tuple(s for j, s in enumerate(stmts) if not (i == mi and j == si)) for i, stmts in enumerate(g))
                if any(k == key for k, _ in check_graph(griffe, g2)):
                    g = g2
                    changed = True
                    break
            if changed:
                break
    return g


def _gkey(g):
    return " ; ".join(f"{m.replace('pkg.', '') if m != 'pkg' else 'init'}: " + " | ".join(stmts) for m, stmts in zip(MODS, g) if stmts)


def run_graphs(griffe, part, tier):
    acc = Acc()
    cache: dict = {}
    for idx, g in enumerate(graphs(tier)):
        if idx % NSHARDS != part:
            continue
        res = check_graph(griffe, g)
        has_import = any("import" in s for stmts in g for s in stmts)
        acc.case({"graph": _gkey(g)}, outcome="ok" if not res else "viol:" + ",".join(sorted({k.split("/")[0] for k, _ in res})), nontrivial=has_import)
        acc.states += 1
        acc.transitions += 3  # load, resolve, resolve again
        acc.traces += 1
        for key, summary in res:
            if key not in cache:
                cache[key] = []
            # reduce once per (key, set of statement kinds) to bound the cost
            sig = (key, tuple(sorted({s.split(" import ")[0] + ("*" if s.endswith("*") else "") for stmts in g for s in stmts})))
            if sig not in cache:
                cache[sig] = _reduce(griffe, g, key)
            small = cache[sig]
            if key.startswith("partial/") and key.endswith("/wildcard-expansion"):
                full = key  # one root cause (expand_wildcards wraps a not-yet-resolved alias in an alias born resolved), whatever the graph
            elif len(small) == 4:
                full = f"{key}/{_gkey(small)}"
            else:
                swapped = tuple(tuple(st.replace("pkg.a", "pkg.@").replace("pkg.b", "pkg.a").replace("pkg.@", "pkg.b") for st in stmts) for stmts in (small[0], small[2], small[1]))
                full = f"{key}/{min(_gkey(small), _gkey(swapped))}"  # a and b are interchangeable
            acc.violation(full, summary, {"graph": [list(s) for s in small]}, {"first_seen_in": _gkey(g)}, size=sum(len(s) for s in small))
    return acc.result()


# -- histories ---------------------------------------------------------------------------------------------------------------

H_FILES = {
    # fx: a real function of P, displaced (once Q is loaded) by the dangling alias that `from Q import *` brings; P.x and P.y follow it, near and far
    "P/__init__.py": "def fx(): ...\nfrom Q import qx\nfrom Q import *\nfrom R import rx\ndef px(): ...\nfrom P.sub import *\n__all__ = ['px', 'qx', 'rx', 'sx', 'fx']\n",
    "P/x.py": "from P import fx\n",
    # aliases in a submodule, and in a class of a submodule, whose package (Q) may only get loaded on demand by resolve_aliases(external=True)
    "P/z.py": "from Q import qx as zq\nclass ZC:\n    from Q.inner import ix as zi\n",
    "P/y.py": "from P.x import fx\n",
    "P/sub.py": "from Q.inner import *\nfrom P import px as sx\n",
    "Q/__init__.py": "from P import px\nfrom P import *\nfrom R.deep import *\ndef qx(): ...\nfrom R import fx\n",
    "Q/inner.py": "from P.sub import sx\nfrom Q import qx as ix\nfrom Q.inner import *\n",
}
# two more file sets for the same operations: an alias replaced by a wildcard-imported alias while others still hold the old one (staged
# loading), and a package reached only through the wildcard import of a package that alias resolution loads itself (external=True)
H2_FILES = {
    "P/__init__.py": "from P.a import thing as y\nfrom Q import *\n", "P/a.py": "def thing(): ...\n", "P/z.py": "from P import y as z\n", "P/sub.py": "from P.z import z\n",
    "Q/__init__.py": "from P.z import z as y\n",
}
H3_FILES = {
    "P/__init__.py": "from Q import x\nfrom Q import missing_name\n", "P/sub.py": "from P import x as sx\n",
    "Q/__init__.py": "from S import *\nfrom T.deep import *\n", "S/__init__.py": "x = 1\nfrom U import *\n", "U/__init__.py": "u = 2\n",
}
# aliases that only live in a SUBMODULE (and in a class there) and point into a package nothing else refers to: it is loaded on demand by
# resolve_aliases(external=True) in the middle of the resolution loop, whose next round has to come back to that submodule
H4_FILES = {"P/__init__.py": "", "P/sub.py": "from Q import thing\nclass K:\n    from Q import thing as kt\n    from R import gone as kg\n", "Q/__init__.py": "def thing(): ...\n"}
# three packages, loaded and resolved in stages: Q takes P's names through a wildcard import of a module that merely re-exports them (an alias over a resolved
# alias), then R arrives, whose wildcard import into P displaces the function at the end of that chain by a dangling alias
H5_FILES = {"P/__init__.py": "def obj(): ...\n\nfrom R import *\n", "P/api.py": "from P import obj\n", "P/sub.py": "from P.api import obj as so\n", "Q/__init__.py": "from P.api import *\n",
            "R/__init__.py": "from missing import obj\n"}
# a chain of four import aliases ending at a function that a wildcard import (of a package loaded later) displaces by a dangling alias: every link must end up unresolved
H6_FILES = {"P/__init__.py": "", "P/m.py": "def x(): ...\nfrom Q import *\n", "P/l1.py": "from P.m import x\n", "P/l2.py": "from P.l1 import x\n", "P/l3.py": "from P.l2 import x\n",
            "P/l4.py": "from P.l3 import x\n", "P/sub.py": "from P.l4 import x as sx\n", "Q/__init__.py": "from missing import x\n"}
FILESETS = [None, H2_FILES, H3_FILES, H4_FILES, H5_FILES, H6_FILES]  # (index 0: H_FILES, defined above)
H_OPS = [("load", "P"), ("load", "Q"), ("load", "P.sub"), ("load", "R")] + [("resolve", i, e) for i in (False, True) for e in (None, False, True)]


def run_histories(griffe, tier, fileset=0):
    acc = Acc()
    depth = 4 if tier == "quick" else 5
    with sandbox.scratch_dir("c06h") as d:
        sandbox.write_tree(d, FILESETS[fileset] or H_FILES)

        def replay(hist):
            loader = _new_loader(griffe, d)
            viols = []
            for oi in hist:
                op = H_OPS[oi]
                try:
                    with sandbox.time_limit(10):
                        if op[0] == "load":
                            try:
                                loader.load(op[1])
                            except (ImportError, griffe.LoadingError):
                                pass  # R does not exist: documented outcome
                        else:
                            loader.resolve_aliases(implicit=op[1], external=op[2])
                except sandbox.CaseTimeout:
                    viols.append(("hang/history", "no result within 10 s", None))
                except Exception as e:  # noqa: BLE001
                    viols.append((f"raise/{type(e).__name__}@{_frame(e)}/history-{op[0]}", f"{op} raised {e!r}", None))
            return loader, viols

        seen = {}
        frontier = [()]
        loader, _ = replay(())
        seen[hashlib.sha1(repr(_touch_all(griffe, loader, [], None)).encode()).hexdigest()] = ()
        for _level in range(depth):
            nxt = []
            for hist in frontier:
                for oi in range(len(H_OPS)):
                    h2 = hist + (oi,)
                    loader, viols = replay(h2)
                    table = _touch_all(griffe, loader, viols, None)
                    # I4 on this state (passive snapshots: reading must not resolve anything)
                    try:
                        for ext in (False, True):  # (external=True last: it loads further packages)
                            u1, _ = loader.resolve_aliases(implicit=True, external=ext)
                            s1 = _passive(griffe, loader)
                            u2, _ = loader.resolve_aliases(implicit=True, external=ext)
                            s2 = _passive(griffe, loader)
                            if s1 != s2 or u1 != u2:
                                viols.append((f"fixpoint/history/external={ext}", f"repeating resolve_aliases(external={ext}) changed (resolved, target_path) of some alias or the unresolved set ({sorted(u1)} -> {sorted(u2)})", None))
                    except Exception as e:  # noqa: BLE001
                        viols.append((f"raise/{type(e).__name__}@{_frame(e)}/history-fixpoint", repr(e), None))
                    # I2/I3 once more in the state the two resolutions leave behind (an alias that says "resolved" must reach an object there too)
                    post = []
                    _touch_all(griffe, loader, post, None)
                    viols.extend((k + "/after-resolution", s_, w) for k, s_, w in post if k.startswith("partial/") and not any(k == v[0] for v in viols))
                    acc.transitions += 1
                    acc.traces += 1
                    desc = [" ".join(map(str, H_OPS[i])) for i in h2]
                    for k, s, _w in viols:
                        kk = k if (k.startswith("partial/") and k.endswith("/wildcard-expansion")) else f"{k}/[history]"
                        acc.violation(kk, s, {"history": desc, "fileset": fileset}, None, size=len(h2))
                    dig = hashlib.sha1(repr(table).encode()).hexdigest()
                    acc.observe(dig)
                    if dig not in seen:
                        seen[dig] = h2
                        nxt.append(h2)
            frontier = nxt
        acc.states += len(seen)
        acc.evaluations += acc.transitions
        acc.nontrivial += len(seen)
        hs = sorted(seen.values(), key=lambda h: (len(h), h))
        acc.samples = [{"history": [" ".join(map(str, H_OPS[i])) for i in h]} for h in hs[-2:]]
        acc.notes.append(f"histories: depth {depth}, {len(seen)} distinct alias tables, frontier after last level {len(frontier)}")
    return acc.result()


def run_fileless(griffe, tier):
    """The same error discipline for trees that did not come from files: a module visited from a string (filepath None), and the tree rebuilt from its JSON.
    Every single statement of the menu, and every ordered pair; every alias is dereferenced (I2/I3)."""
    acc = Acc()
    stmts = [st for st in menu(["x"]) if not st.startswith("from .")]  # (a relative import cannot be interpreted without knowing the file: `visit` refuses it)

    class _L:  # what _touch_all needs of a loader
        pass

    for combo in [(s,) for s in stmts] + [(a, b) for a in stmts for b in stmts if a != b]:
        code = "\n".join(combo) + "\n"
        for how in ("visited-from-string", "rebuilt-from-json"):
            case = {"fileless": how, "statements": list(combo)}
            viols = []
            try:
                with sandbox.time_limit(10):
                    coll = griffe.ModulesCollection()
                    mod = griffe.visit("pkg", filepath=None, code=code, modules_collection=coll)
                    if how == "rebuilt-from-json":
                        mod = griffe.Module.from_json(mod.as_json())
                        mod._modules_collection = coll
                    coll.set_member("pkg", mod)
                    fake = _L()
                    fake.modules_collection = coll
                    _touch_all(griffe, fake, viols, None)
            except sandbox.CaseTimeout:
                viols.append(("hang/10s", "no result within 10 s", None))
            except Exception as e:  # noqa: BLE001
                viols.append((f"raise/{type(e).__name__}@{_frame(e)}/fileless", f"raised {e!r}", None))
            acc.case(case, outcome="fileless:" + ("ok" if not viols else "viol"), nontrivial=any("import" in st for st in combo))
            acc.states += 1
            acc.transitions += 1
            for k, summary, _w in viols:
                acc.violation(f"{k}/fileless-module/{how}", summary, case, None, size=len(combo))
    return acc.result()


def run_shard(shard, tier):
    boot.boot()
    import griffe

    if shard[0] == "F":
        return run_fileless(griffe, tier)
    if shard[0] == "G":
        return run_graphs(griffe, shard[1], tier)
    return run_histories(griffe, tier, shard[1])


def replay(case):
    boot.boot()
    import griffe

    if "fileless" in case:
        res = run_fileless(griffe, "quick")
        return [(k, v["summary"], v["detail"]) for k, v in res["violations"].items()]
    if "graph" in case:
        g = tuple(tuple(s) for s in case["graph"])
        return [(f"{k}/{_gkey(g)}", s, None) for k, s in check_graph(griffe, g)]
    return []
