"""C01 — Static extraction is faithful to the source.

A structural model (not text) of a module is enumerated exhaustively; a renderer prints it and records, as it prints, the
line span of every construct; a small reference interpreter over the *model* says which member each name must end up as
(later binding wins; an assignment whose syntactic parent is `if`/`else`/`except` does not displace an existing member),
with what kind, parent, runtime flag, span, docstring, labels, import map and __all__.  The real visitor is run on the
text with a recording extension (event monitor).

Alphabet: def / async def / decorated def / class (with a body menu, nested class, __init__ with instance attributes) /
`n = 1` / `n: int = 1` / `n: int` / `a = b = 1` / attribute docstrings / five import forms / __all__ forms / unsupported
statements (totality only), each for the names a and b (forced collisions), alone or inside if / if-else /
if TYPE_CHECKING (/else, with a nested if) / try-except / try-except-else-finally / for / while / with.
"""
from __future__ import annotations

import os

import inspect
import itertools
import textwrap
from pathlib import Path

from mc.core import boot
from mc.core.driver import Acc

PROPERTY = "C01"
LEVEL = "exploration"
NSHARDS = 64
RULE = (
    "all module bodies of <= 2 (quick) / <= 3 (thorough, reduced alphabet) statements over the statement alphabet (leaves and blocks whose arms "
    "are leaves), plus all class bodies of <= 2 class-level statements; non-trivial = some name is bound at least twice, or inside a block, "
    "or inside a class; distinct by construction"
)
ASSUMPTIONS = [
    "names a, b (plus _p, __m, __d__ for the visibility table) stand for all identifiers of the same privacy class",
    "an `if TYPE_CHECKING:` is a type guard only when written directly in a module or class body (Griffe's documented scope)",
    "conditional re-assignment over a NON-attribute member is unspecified by the property: either outcome is accepted",
]
MANIFEST = {
    "category": "exploration",
    "text": "Bounded exhaustive enumeration of structural module models (statement sequences x nesting in 22 block kinds (if/else, try clauses, loops, with, TYPE_CHECKING guards nested, aliased and inside try, documented assignments in else/except/finally clauses) x 2 colliding names x class bodies) rendered to source with spans known by construction; the real visitor's tree is compared with a reference interpreter over the model (members, kinds, parents, spans, source slices, docstrings, labels, runtime flag, imports, exports, visibility table) and its extension events with the announce-once / parent-first / members-last protocol; unsupported statements are in the alphabet for totality; a reload family loads the same file again after an edit (same loader / shared lines collection). A spelled family writes the same definitions in valid but unusual ways (PEP 695 headers, multi-line and call decorators, semicolons, line continuations, one-line compound statements, elif / except* / match arms, non-ASCII identifiers, tabs) alone, next to ordinary statements, in classes and in block arms; a separators family loads files containing form feeds and the other characters str.splitlines splits on, and CRLF / CR line ends; methods other than __init__ that assign to self are class-level statements too. The visibility table includes __all__ spliced from a local list (the list variable is not exported).",
    "note": "The reference interpreter and renderer are hand-written (~250 lines); complete for the alphabet and size bound; general Python syntax beyond the alphabet is not covered.",
    "technique": "model checking by exhaustive small-scope enumeration of structural module models on the real visitor with a reference interpreter and an event monitor",
}

# ---------------------------------------------------------------------------------------------------------------
# statement model.  A statement is a tuple; ("def", name, variant) etc.  Blocks: ("block", kind, arms) with arms = tuple of stmt tuples per arm.

DEF_VARIANTS = ["plain", "doc", "async", "cached", "unknown-deco", "async-cached"]
CLASS_DEF_VARIANTS = ["plain", "doc", "staticmethod", "classmethod", "property", "async", "async-classmethod",
                      # a property completed by a setter that carries another decorator ABOVE `@<name>.setter`: still the same property
                      "property-setter",
                      # two stacked decorators, a standard-library one and a built-in one, in both orders (labels add up, whatever the order)
                      "cached+staticmethod", "staticmethod+cached", "property+abstract", "abstract+classmethod"]
ASSIGN_VARIANTS = ["assign", "assign-doc", "annassign", "annonly"]
IMPORT_FORMS = ["import n", "import n.x", "import x.y as n", "from m import n", "from m import x as n"]
ALL_FORMS = ['__all__ = ["a"]', '__all__ = ["a", "b"]', '__all__ += ["b"]']
UNSUPPORTED = ["del a", "z, y = 1, 2", "a.x = 1", "z[0] = 1", "global a", "(z := 1)", "match a:\n    case _:\n        z = 1", "type Z = int",
               "assert a", "a", "lambda: a", "[z for z in a]", "async with a as z:\n    pass", "while False:\n    break\nelse:\n    z = 1"]
CLASS_BODIES = ["pass", "doc", "attr", "method", "init", "init-cond", "nested", "decorated"]
BLOCK_KINDS = ["if", "if-else", "tc", "tc-else", "tc-nested-if", "typing.tc", "try-except", "try-full", "for", "while", "with",
               # the guard written one level down (inside a plain if / a try), and spelled through an import alias
               "if-then-tc", "try-then-tc", "alias.tc", "renamed-tc",
               # a plain `if` inside a `try` inside the guard: statements after the inner `if` are still guarded
               "tc-try-if",
               # a documented assignment (assignment + string) in the clauses that are not `body`: else of if / for / while / try, except, finally
               "if-else-doc", "for-else-doc", "while-else-doc", "try-else-doc", "try-except-doc", "try-finally-doc"]
SMALL_ONLY = {"tc-try-if"}
DOC_KINDS = {"if-else-doc", "for-else-doc", "while-else-doc", "try-else-doc", "try-except-doc", "try-finally-doc"}
DOC_ARMS = [(("assign", "a", "assign"), ("string",)), (("assign", "a", "annassign"), ("string",)), (("chain",), ("string",)), (("assign", "b", "assign"), ("assign", "a", "assign"), ("string",))]
ARMS = {"if": 1, "if-else": 2, "tc": 1, "tc-else": 2, "tc-nested-if": 2, "typing.tc": 1, "try-except": 2, "try-full": 4, "for": 1, "while": 1, "with": 1,
        "if-then-tc": 2, "try-then-tc": 1, "alias.tc": 1, "renamed-tc": 1, "tc-try-if": 2,
        "if-else-doc": 1, "for-else-doc": 1, "while-else-doc": 1, "try-else-doc": 1, "try-except-doc": 1, "try-finally-doc": 1}


# ---------------------------------------------------------------------------------------------------------------
# "spelled" leaves: the same definitions written in valid but less usual ways (multi-line headers, PEP 695 type parameters, decorators that are calls
# or span several lines, semicolons, line continuations, one-line compound statements, elif / except* / match arms, non-ASCII identifiers, tabs).
# Every entry: (text, binds, scopes) with binds = (name, kind, first-line offset, last-line offset, extras); offsets are relative to the first line of the text,
# known by construction.  extras: labels (decorator-derived), doc (text, off1, off2), cond, annotation, value, target (aliases), body (class members).
SPELLED = [
    ("def a[T](x: T) -> T: ...", [("a", "function", 0, 0, {})], "mc"),
    ("async def a[T](): ...", [("a", "function", 0, 0, {"labels": {"async"}})], "mc"),
    ('def a(\n    x=1,\n    *args,\n) -> int:\n    """Doc of a."""', [("a", "function", 0, 4, {"doc": ("Doc of a.", 4, 4)})], "mc"),
    ("@some.decorator(1, k=2)\ndef a(): ...", [("a", "function", 0, 1, {})], "m"),
    ("@some.decorator(\n    1,\n)\ndef a(): ...", [("a", "function", 0, 3, {})], "m"),
    ("@functools.cache\n# a comment\n\ndef a(): ...", [("a", "function", 0, 3, {"labels": {"cached"}})], "m"),
    ("@functools.lru_cache(maxsize=None)\ndef a(): ...", [("a", "function", 0, 1, {"labels": {"cached"}})], "m"),
    ("@functools.lru_cache(\n    maxsize=None,\n)\n@staticmethod\ndef a(): ...", [("a", "function", 0, 4, {"labels": {"cached", "staticmethod"}})], "c"),
    ("@functools.cached_property\ndef a(self): ...", [("a", "attribute", 0, 1, {"labels": {"cached", "property"}, "is_def": True})], "c"),
    ("class a[T]:\n    b: T", [("a", "class", 0, 1, {"body": [("b", "attribute", 1, 1, {"annotation": "T", "value": None, "attr_labels": {"instance-attribute"}})]})], "mc"),
    ("class a(\n    object,\n):\n    pass", [("a", "class", 0, 3, {})], "mc"),
    ("@dataclasses.dataclass(frozen=True)\nclass a:\n    b: int = 0", [("a", "class", 0, 2, {"labels": {"dataclass"}, "body": [("b", "attribute", 2, 2, {"annotation": "int", "value": "0"})]})], "mc"),
    ("class a: b = 1", [("a", "class", 0, 0, {"body": [("b", "attribute", 0, 0, {"value": "1"})]})], "mc"),
    ('def a(): "Doc of a."', [("a", "function", 0, 0, {"doc": ("Doc of a.", 0, 0)})], "m"),
    ("a = 1; b = 2", [("a", "attribute", 0, 0, {"value": "1"}), ("b", "attribute", 0, 0, {"value": "2"})], "mc"),
    ("a = (\n    1\n)", [("a", "attribute", 0, 2, {"value": "1"})], "mc"),
    ("a: int = \\\n    1", [("a", "attribute", 0, 1, {"value": "1", "annotation": "int"})], "mc"),
    ("a = b = \\\n    1", [("a", "attribute", 0, 1, {"value": "1"}), ("b", "attribute", 0, 1, {"value": "1"})], "mc"),
    ("a = lambda: 1", [("a", "attribute", 0, 0, {"value": "lambda: 1"})], "mc"),
    ("if z: a = 1", [("a", "attribute", 0, 0, {"value": "1", "cond": "if"})], "mc"),
    ("if z: a = 1\nelse: a = 2", [("a", "attribute", 0, 0, {"value": "1", "cond": "if"}), ("a", "attribute", 1, 1, {"value": "2", "cond": "if"})], "mc"),
    ("if z:\n\ta = 1", [("a", "attribute", 1, 1, {"value": "1", "cond": "if"})], "mc"),
    ("if z:\n    pass\nelif y:\n    a = 1\nelse:\n    a = 2", [("a", "attribute", 3, 3, {"value": "1", "cond": "if"}), ("a", "attribute", 5, 5, {"value": "2", "cond": "if"})], "mc"),
    ("try:\n    a = 1\nexcept* ValueError:\n    a = 2", [("a", "attribute", 1, 1, {"value": "1"}), ("a", "attribute", 3, 3, {"value": "2", "cond": "except"})], "mc"),
    ("match z:\n    case 1:\n        a = 1\n    case _:\n        def b(): ...", [("a", "attribute", 2, 2, {"value": "1"}), ("b", "function", 4, 4, {})], "m"),
    ("from mm import (\n    x as a,\n    b,\n)", [("a", "alias", 0, 3, {"target": "mm.x"}), ("b", "alias", 0, 3, {"target": "mm.b"})], "mc"),
    ("import x.y as a, n.x as b", [("a", "alias", 0, 0, {"target": "x.y"}), ("b", "alias", 0, 0, {"target": "n.x"})], "mc"),
    ("from mm import x as a; from mm import y as b", [("a", "alias", 0, 0, {"target": "mm.x"}), ("b", "alias", 0, 0, {"target": "mm.y"})], "mc"),
    ('a = 1\n\n# a comment\n"""Attribute doc of a."""', [("a", "attribute", 0, 0, {"value": "1", "doc": ("Attribute doc of a.", 3, 3)})], "mc"),
    ("\u00f1 = 1", [("\u00f1", "attribute", 0, 0, {"value": "1"})], "mc"),
    ("def \u00f1(): ...", [("\u00f1", "function", 0, 0, {})], "m"),
    ('class \u00f1:\n    """Doc of class."""', [("\u00f1", "class", 0, 1, {"doc": ("Doc of class.", 1, 1)})], "mc"),
    ("\ufb01 = 1", [("fi", "attribute", 0, 0, {"value": "1"})], "mc"),  # (the ligature is NFKC-normalised by the parser: CPython binds `fi`)
    ("def a(): return 1; z = 2", [("a", "function", 0, 0, {})], "m"),
    ("with z as y, y as z:\n    a = 1", [("a", "attribute", 1, 1, {"value": "1"})], "mc"),
    ("for z in y: a = 1", [("a", "attribute", 0, 0, {"value": "1"})], "mc"),
]
SPELLED_NEIGHBOURS = [("assign", "a", "assign"), ("def", "a", "doc"), ("class", "a", "attr"), ("import", "a", "from m import n"), ("string",), ("assign", "b", "annassign")]
SPELLED_BLOCKS = ["if", "tc", "try-except", "with"]


def leaves(names=("a", "b"), full=True):
    out = []
    for n in names:
        for v in (DEF_VARIANTS if full else ["plain", "doc"]):
            out.append(("def", n, v))
        for body in (CLASS_BODIES if full else ["pass", "attr"]):
            out.append(("class", n, body))
        for v in (ASSIGN_VARIANTS if full else ["assign", "annassign"]):
            out.append(("assign", n, v))
        for f in (IMPORT_FORMS if full else ["from m import n"]):
            out.append(("import", n, f))
    out.append(("chain",))
    out.append(("chain-mixed",))
    out.append(("string",))
    if full:
        for f in ALL_FORMS:
            out.append(("all", f))
        for u in UNSUPPORTED:
            out.append(("unsupported", u))
    else:
        out.append(("all", ALL_FORMS[0]))
        out.append(("unsupported", UNSUPPORTED[6]))
    return out


ARM_LEAVES = [("def", "a", "plain"), ("class", "a", "attr"), ("assign", "a", "assign"), ("assign", "a", "annassign"), ("import", "a", "from m import n"),
              ("assign", "b", "assign"), ("def", "b", "doc"), ("unsupported", "del a"), ("chain",), ("string",)]
ARM_LEAVES_SMALL = [("def", "a", "plain"), ("assign", "a", "assign"), ("assign", "b", "assign"), ("string",)]


def blocks(full=True):
    out = []
    for k in BLOCK_KINDS:
        if k in DOC_KINDS:
            out.extend(("block", k, (arm,)) for arm in (DOC_ARMS if full else DOC_ARMS[:1]))
            continue
        n = ARMS[k]
        arms_alpha = ARM_LEAVES if (n <= 2 and full and k not in SMALL_ONLY) else ARM_LEAVES_SMALL
        for arms in itertools.product(arms_alpha, repeat=n):
            out.append(("block", k, tuple((a,) for a in arms)))
    return out


CLASS_LEVEL = (
    [("def", n, v) for n in ("a", "b") for v in CLASS_DEF_VARIANTS]
    + [("assign", n, v) for n in ("a", "b") for v in ASSIGN_VARIANTS]
    + [("assign", "a", "classvar"), ("class", "a", "attr"), ("import", "a", "from m import n"), ("chain",), ("chain-mixed",), ("string",)]
    + [("block", k, tuple((a,) for a in arms)) for k in ("if", "tc", "tc-nested-if", "try-except")
       for arms in itertools.product(ARM_LEAVES_SMALL + [("def", "a", "property"), ("def", "b", "staticmethod")], repeat=ARMS[k])]
    + [("def", "__init__", "init"), ("def", "__init__", "init-cond"), ("def", "__init__", "init-ann")]
    # methods other than __init__ that assign to self: instance attributes are only read from __init__ (the class-level binding of the name stays what it was)
    + [("def", "__post_init__", "self-assign"), ("def", "b", "self-assign"), ("def", "__new__", "self-assign")]
)
VIS_NAMES = ["a", "_p", "__m", "__d__"]


def all_cases(tier):
    full = leaves(full=True) + blocks(full=True)
    small = leaves(full=False) + blocks(full=False)
    # module bodies
    yield ("M", ())
    for s in full:
        yield ("M", (s,))
    for s1 in full:
        for s2 in full:
            yield ("M", (s1, s2))
    # class bodies (the class is called K; statements are class-level)
    for s in CLASS_LEVEL:
        yield ("C", (s,))
    for s1 in CLASS_LEVEL:
        for s2 in CLASS_LEVEL:
            yield ("C", (s1, s2))
    # spelled leaves: alone, before and after an ordinary statement on the same name (both orders), as a class-level statement, inside block arms
    for i, (_text, _binds, scopes) in enumerate(SPELLED):
        sp = ("spelled", i)
        if "m" in scopes:
            yield ("M", (sp,))
            for nb in SPELLED_NEIGHBOURS:
                yield ("M", (sp, nb))
                yield ("M", (nb, sp))
            for kb in SPELLED_BLOCKS:
                yield ("M", (("block", kb, ((sp,),) + ((("assign", "b", "assign"),),) * (ARMS[kb] - 1)),))
                yield ("M", (("assign", "a", "annassign"), ("block", kb, ((sp,),) + ((("assign", "b", "assign"),),) * (ARMS[kb] - 1))))
        if "c" in scopes:
            yield ("C", (sp,))
            for nb in SPELLED_NEIGHBOURS[:1] + SPELLED_NEIGHBOURS[4:]:
                yield ("C", (sp, nb))
                yield ("C", (nb, sp))
    if tier == "thorough":
        for i in range(len(SPELLED)):
            for j in range(len(SPELLED)):
                if "m" in SPELLED[i][2] and "m" in SPELLED[j][2]:
                    yield ("M", (("spelled", i), ("spelled", j)))
    # visibility table: name shape x parent kind x __all__ declared/listed x imported
    for n in VIS_NAMES:
        for parent in ("module", "class"):
            for allmode in ("none", "listed", "not-listed", "empty"):
                for how in ("def", "assign", "import", "import-then-def"):
                    if parent == "class" and allmode != "none":
                        continue
                    yield ("V", n, parent, allmode, how)
    # __all__ spliced from a local list: the list variable itself is not exported (what __all__ holds before expansion is an expression, not the variable's name)
    for n in ("extra", "_extra"):
        yield ("V", n, "module", "spliced", "assign")
    if tier == "thorough":
        small = [s for s in small if not (s[0] == "block" and s[1] == "try-full")]  # (four-arm blocks stay in the pairs above)
        for s1 in small:
            for s2 in small:
                for s3 in small:
                    yield ("M", (s1, s2, s3))
        for s1 in CLASS_LEVEL:
            for s2 in CLASS_LEVEL:
                for s3 in ARM_LEAVES_SMALL + [("def", "__init__", "init")]:
                    yield ("C", (s1, s2, s3))


def bounds(tier):
    return {"leaves": len(leaves()), "blocks": len(blocks()), "class_level_statements": len(CLASS_LEVEL),
            "module_body_max": 2 if tier == "quick" else "2 (full alphabet), 3 (reduced alphabet)", "block_kinds": BLOCK_KINDS}


def shards(tier):
    return list(range(NSHARDS))


# ---------------------------------------------------------------------------------------------------------------
# renderer + event generation (in visit order)


class R:
    def __init__(self):
        self.lines: list[str] = []

    def emit(self, text, ind):
        first = len(self.lines) + 1
        for l in text.split("\n"):
            self.lines.append(("    " * ind + l) if l else "")
        return first, len(self.lines)


def render_stmt(r: R, s, ind, ctx, scope):
    """ctx: {"cond": None|'if'|'except', "guard": bool}; scope: 'module'|'class'.  Returns list of events."""
    k = s[0]
    ev = []
    if k == "def":
        _, n, v = s
        deco = {"cached": "@functools.cache", "unknown-deco": "@some.decorator", "staticmethod": "@staticmethod", "classmethod": "@classmethod", "property": "@property",
                "async-cached": "@functools.cache", "async-classmethod": "@classmethod"}.get(v)
        labels = {"cached": {"cached"}, "staticmethod": {"staticmethod"}, "classmethod": {"classmethod"}, "property": {"property"}, "async": {"async"},
                  "async-cached": {"async", "cached"}, "async-classmethod": {"async", "classmethod"}}.get(v, set())
        stacked = {"cached+staticmethod": (["@functools.cache", "@staticmethod"], {"cached", "staticmethod"}), "staticmethod+cached": (["@staticmethod", "@functools.cache"], {"cached", "staticmethod"}),
                   "property+abstract": (["@property", "@abc.abstractmethod"], {"property", "abstractmethod"}), "abstract+classmethod": (["@abc.abstractmethod", "@classmethod"], {"abstractmethod", "classmethod"})}.get(v)
        first = len(r.lines) + 1
        if stacked:
            for d_ in stacked[0]:
                r.emit(d_, ind)
            labels = stacked[1]
        if deco:
            r.emit(deco, ind)
        params = "self" if scope == "class" and v not in ("staticmethod", "cached+staticmethod", "staticmethod+cached") else ""
        if v.endswith("classmethod"):
            params = "cls"
        head = ("async def " if v.startswith("async") else "def ") + f"{n}({params}):"
        doc = None
        init_events = []
        if v == "doc":
            r.emit(head, ind)
            l1, l2 = r.emit(f'"""Doc of {n}.\n\nMore.\n"""', ind + 1)
            doc = (f"Doc of {n}.\n\nMore.", l1, l2)
        elif v == "init":
            r.emit(head, ind)
            l1, l2 = r.emit("self.a = 1", ind + 1)
            init_events.append({"op": "bind", "name": "a", "kind": "attribute", "lineno": l1, "endlineno": l2, "cond": None, "guard": ctx["guard"], "labels": {"instance-attribute"}, "instance": True})
            l1, l2 = r.emit("self.z.b = 2", ind + 1)  # (an attribute of an attribute of self: binds nothing on the class)
        elif v == "self-assign":
            r.emit(head, ind)
            r.emit("self.a = 2", ind + 1)
            r.emit("self.c: int = 3", ind + 1)
        elif v == "init-cond":
            r.emit(head, ind)
            r.emit("if self:", ind + 1)
            l1, l2 = r.emit("self.a = 1", ind + 2)
            init_events.append({"op": "bind", "name": "a", "kind": "attribute", "lineno": l1, "endlineno": l2, "cond": "if", "guard": ctx["guard"], "labels": {"instance-attribute"}, "instance": True})
            r.emit("else:", ind + 1)
            l1, l2 = r.emit("self.b = 2", ind + 2)
            init_events.append({"op": "bind", "name": "b", "kind": "attribute", "lineno": l1, "endlineno": l2, "cond": "if", "guard": ctx["guard"], "labels": {"instance-attribute"}, "instance": True})
        elif v == "init-ann":
            r.emit(head, ind)
            l1, l2 = r.emit("self.b: int = 1", ind + 1)
            init_events.append({"op": "bind", "name": "b", "kind": "attribute", "lineno": l1, "endlineno": l2, "cond": None, "guard": ctx["guard"], "labels": {"instance-attribute"}, "instance": True, "annotation": "int"})
        elif v == "property-setter":
            r.emit("@property", ind)
            r.emit(head + " ...", ind)
            last_getter = len(r.lines)
            r.emit("@some.decorator", ind)
            r.emit(f"@{n}.setter", ind)
            r.emit(f"def {n}(self, value): ...", ind)
            ev.append({"op": "bind", "name": n, "kind": "attribute", "lineno": first, "endlineno": last_getter, "cond": None, "guard": ctx["guard"], "labels": {"property", "writable"}, "doc": None,
                       "src_first": first, "is_def": True})
            return ev
        else:
            r.emit(head + " ...", ind)
        last = len(r.lines)
        kind = "attribute" if v in ("property", "property+abstract") else "function"
        lineno = first  # (a property, like any other decorated definition, starts at its first decorator: slicing by the span returns the definition)
        ev.append({"op": "bind", "name": n, "kind": kind, "lineno": lineno, "endlineno": last, "cond": None, "guard": ctx["guard"], "labels": labels, "doc": doc,
                   "src_first": first, "is_def": True})
        ev.extend(init_events)
    elif k == "class":
        _, n, body = s
        first = len(r.lines) + 1
        if body == "decorated":
            r.emit("@some.decorator\n@dataclasses.dataclass", ind)
        r.emit(f"class {n}:", ind)
        doc = None
        sub = []
        sub_ctx = {"cond": None, "guard": ctx["guard"]}
        if body in ("pass", "decorated"):
            r.emit("pass", ind + 1)
        elif body == "doc":
            l1, l2 = r.emit(f'"""Doc of class {n}."""', ind + 1)
            doc = (f"Doc of class {n}.", l1, l2)
        elif body == "attr":
            sub.extend(render_stmt(r, ("assign", "a", "annassign"), ind + 1, sub_ctx, "class"))
        elif body == "method":
            sub.extend(render_stmt(r, ("def", "b", "doc"), ind + 1, sub_ctx, "class"))
        elif body == "init":
            sub.extend(render_stmt(r, ("def", "__init__", "init"), ind + 1, sub_ctx, "class"))
        elif body == "init-cond":
            sub.extend(render_stmt(r, ("assign", "a", "assign"), ind + 1, sub_ctx, "class"))
            sub.extend(render_stmt(r, ("def", "__init__", "init-cond"), ind + 1, sub_ctx, "class"))
        elif body == "nested":
            sub.extend(render_stmt(r, ("class", "a", "attr"), ind + 1, sub_ctx, "class"))
        ev.append({"op": "bind", "name": n, "kind": "class", "lineno": first, "endlineno": len(r.lines), "cond": None, "guard": ctx["guard"], "labels": {"dataclass"} if body == "decorated" else set(), "doc": doc, "body": sub,
                   "src_first": first, "is_def": True})
    elif k == "assign":
        _, n, v = s
        text = {"assign": f"{n} = 1", "assign-doc": f"{n} = 1", "annassign": f"{n}: int = 1", "annonly": f"{n}: int", "classvar": f"{n}: ClassVar[int] = 1"}[v]
        l1, l2 = r.emit(text, ind)
        adoc = None
        if v == "assign-doc":
            d1, d2 = r.emit(f'"""Attribute doc of {n}."""', ind)
            adoc = (f"Attribute doc of {n}.", d1, d2)
        if scope == "module":
            labels = {"module-attribute"}
        elif v == "classvar":
            labels = {"class-attribute"}
        elif v == "annonly":
            labels = {"instance-attribute"}
        else:
            labels = {"class-attribute", "instance-attribute"}
        ev.append({"op": "bind", "name": n, "kind": "attribute", "lineno": l1, "endlineno": l2, "cond": ctx["cond"], "guard": ctx["guard"], "labels": labels, "doc": adoc,
                   "annotation": "int" if v in ("annassign", "annonly", "classvar") else None, "value": None if v == "annonly" else "1"})
    elif k == "chain-mixed":
        # a chained assignment one of whose targets is not a plain name: the plain name is bound all the same
        l1, l2 = r.emit("a = z[0] = 1", ind)
        ev.append({"op": "bind", "name": "a", "kind": "attribute", "lineno": l1, "endlineno": l2, "cond": ctx["cond"], "guard": ctx["guard"],
                   "labels": {"module-attribute"} if scope == "module" else {"class-attribute", "instance-attribute"}, "doc": None, "value": "1"})
    elif k == "chain":
        l1, l2 = r.emit("a = b = 1", ind)
        for n in ("a", "b"):
            ev.append({"op": "bind", "name": n, "kind": "attribute", "lineno": l1, "endlineno": l2, "cond": ctx["cond"], "guard": ctx["guard"],
                       "labels": {"module-attribute"} if scope == "module" else {"class-attribute", "instance-attribute"}, "doc": None, "value": "1"})
    elif k == "string":
        # a bare string statement: the docstring of the assignment written immediately above it IN THE SAME BLOCK (render_seq), noise anywhere else
        l1, l2 = r.emit('"""A string statement."""', ind)
        ev.append({"op": "noise", "string": ("A string statement.", l1, l2)})
    elif k == "import":
        _, n, form = s
        text = form.replace("from m ", "from mm ").replace(" n", f" {n}")
        l1, l2 = r.emit(text, ind)
        target = {"import n": n, "import n.x": n, "import x.y as n": "x.y", "from m import n": f"mm.{n}", "from m import x as n": "mm.x"}[form]
        ev.append({"op": "bind", "name": n, "kind": "alias", "lineno": l1, "endlineno": l2, "cond": None, "guard": ctx["guard"], "labels": set(), "target": target})
    elif k == "all":
        text = s[1]
        r.emit(text, ind)
        names = [x for x in ("a", "b") if f'"{x}"' in text]
        if scope == "module":
            ev.append({"op": "all", "names": names, "aug": "+=" in text, "cond": ctx["cond"], "guard": ctx["guard"], "lineno": len(r.lines)})
    elif k == "spelled":
        text, binds, _scopes = SPELLED[s[1]]
        first, _ = r.emit(text, ind)
        own_block = text.startswith(("if ", "try:", "match ", "with ", "for "))  # the binding's syntactic parent is the statement's own clause, not the surrounding one

        def mk(b, class_scope):
            n, kind, o1, o2, x = b
            e = {"op": "bind", "name": n, "kind": kind, "lineno": first + o1, "endlineno": first + o2, "cond": x.get("cond") if own_block else ctx["cond"], "guard": ctx["guard"], "doc": None}
            if x.get("doc"):
                e["doc"] = (x["doc"][0], first + x["doc"][1], first + x["doc"][2])
            if kind == "alias":
                e["labels"] = set()
                e["target"] = x["target"]
                e["cond"] = None
            elif kind == "attribute" and not x.get("is_def"):
                e["labels"] = x.get("attr_labels") or ({"class-attribute", "instance-attribute"} if class_scope else {"module-attribute"})
                e["annotation"] = x.get("annotation")
                e["value"] = x.get("value")
            else:
                e["labels"] = set(x.get("labels", ()))
                e["src_first"] = first + o1
                e["is_def"] = True
                e["cond"] = None
                if kind == "class":
                    e["body"] = [mk(bb, True) for bb in x.get("body", [])]
            return e

        ev.extend(mk(b, scope == "class") for b in binds)
    elif k == "unsupported":
        r.emit(s[1], ind)
        ev.append({"op": "noise"})
    elif k == "block":
        _, kind, arms = s

        def arm(stmts, ind2, cond, guard):
            ev.extend(render_seq(r, stmts, ind2, {"cond": cond, "guard": guard}, scope))

        g = ctx["guard"]
        if kind == "if":
            r.emit("if z:", ind)
            arm(arms[0], ind + 1, "if", g)
        elif kind == "if-else":
            r.emit("if z:", ind)
            arm(arms[0], ind + 1, "if", g)
            r.emit("else:", ind)
            arm(arms[1], ind + 1, "if", g)
        elif kind in ("alias.tc", "renamed-tc"):
            r.emit("if t.TYPE_CHECKING:" if kind == "alias.tc" else "if TC:", ind)
            arm(arms[0], ind + 1, "if", True)
        elif kind == "if-then-tc":
            r.emit("if z:", ind)
            r.emit("if TYPE_CHECKING:", ind + 1)
            arm(arms[0], ind + 2, "if", True)
            arm(arms[1], ind + 1, "if", g)
        elif kind == "try-then-tc":
            r.emit("try:", ind)
            r.emit("if TYPE_CHECKING:", ind + 1)
            arm(arms[0], ind + 2, "if", True)
            r.emit("except ImportError:", ind)
            r.emit("pass", ind + 1)
        elif kind == "tc-try-if":
            r.emit("if TYPE_CHECKING:", ind)
            r.emit("try:", ind + 1)
            r.emit("if z:", ind + 2)
            arm(arms[0], ind + 3, "if", True)
            arm(arms[1], ind + 2, None, True)
            r.emit("except ImportError:", ind + 1)
            r.emit("pass", ind + 2)
        elif kind in ("tc", "typing.tc"):
            r.emit("if TYPE_CHECKING:" if kind == "tc" else "if typing.TYPE_CHECKING:", ind)
            arm(arms[0], ind + 1, "if", True)
        elif kind == "tc-else":
            r.emit("if TYPE_CHECKING:", ind)
            arm(arms[0], ind + 1, "if", True)
            r.emit("else:", ind)
            arm(arms[1], ind + 1, "if", g)
        elif kind == "tc-nested-if":
            r.emit("if TYPE_CHECKING:", ind)
            r.emit("if z:", ind + 1)
            arm(arms[0], ind + 2, "if", True)
            arm(arms[1], ind + 1, "if", True)
        elif kind == "try-except":
            r.emit("try:", ind)
            arm(arms[0], ind + 1, None, g)
            r.emit("except Exception:", ind)
            arm(arms[1], ind + 1, "except", g)
        elif kind == "try-full":
            r.emit("try:", ind)
            arm(arms[0], ind + 1, None, g)
            r.emit("except Exception:", ind)
            arm(arms[1], ind + 1, "except", g)
            r.emit("else:", ind)
            arm(arms[2], ind + 1, None, g)
            r.emit("finally:", ind)
            arm(arms[3], ind + 1, None, g)
        elif kind in DOC_KINDS:
            head, clause, cond = {"if-else-doc": ("if z:", "else:", "if"), "for-else-doc": ("for z in y:", "else:", None), "while-else-doc": ("while z:", "else:", None),
                                  "try-else-doc": ("try:", "else:", None), "try-except-doc": ("try:", "except Exception:", "except"), "try-finally-doc": ("try:", "finally:", None)}[kind]
            r.emit(head, ind)
            r.emit("pass", ind + 1)
            if kind == "try-else-doc":
                r.emit("except Exception:", ind)
                r.emit("pass", ind + 1)
            r.emit(clause, ind)
            arm(arms[0], ind + 1, cond, g)
        elif kind == "for":
            r.emit("for z in y:", ind)
            arm(arms[0], ind + 1, None, g)
        elif kind == "while":
            r.emit("while z:", ind)
            arm(arms[0], ind + 1, None, g)
        elif kind == "with":
            r.emit("with z as y:", ind)
            arm(arms[0], ind + 1, None, g)
    return ev


def render_seq(r: R, stmts, ind, ctx, scope):
    """One statement list (a body or an arm): statements in order; a string statement directly after an assignment documents it."""
    ev = []
    prev_binds = None
    for st in stmts:
        evs = render_stmt(r, st, ind, ctx, scope)
        if st[0] == "string" and prev_binds:
            for b in prev_binds:
                if not b.get("doc"):
                    b["doc"] = evs[0]["string"]
        if st[0] in ("assign", "chain", "chain-mixed"):
            prev_binds = [e for e in evs if e.get("op") == "bind" and e["kind"] == "attribute" and not e.get("is_def")]
        elif st[0] == "spelled":
            text = SPELLED[st[1]][0]
            last_line = max((e["endlineno"] for e in evs if e.get("op") == "bind"), default=0)
            simple = not text.startswith(("if ", "try:", "match ", "with ", "for ", "class ", "def ", "async ", "@")) and '"""' not in text
            prev_binds = [e for e in evs if e.get("op") == "bind" and e["kind"] == "attribute" and not e.get("is_def") and e["endlineno"] == last_line] if simple else None
            if prev_binds and ";" in text:
                prev_binds = prev_binds[-1:]  # `a = 1; b = 2` then a string: the string follows the second assignment
        elif st[0] == "all" and "+=" not in st[1]:
            prev_binds = [e for e in evs if e.get("op") == "all"]  # `__all__ = [...]` is an attribute assignment as well
        else:
            prev_binds = None
        ev.extend(evs)
    return ev


HEAD = "import functools, typing, some, dataclasses, abc\nimport typing as t\nfrom typing import TYPE_CHECKING, ClassVar\nfrom typing import TYPE_CHECKING as TC\n"


def build(case):
    """-> (source, events for the scope under test, scope path prefix, scope kind)"""
    r = R()
    r.emit(HEAD.rstrip("\n"), 0)
    ctx = {"cond": None, "guard": False}
    if case[0] == "M":
        ev = render_seq(r, case[1], 0, ctx, "module")
        return "\n".join(r.lines) + "\n", ev, "m", "module"
    if case[0] == "C":
        first, _ = r.emit("class K:", 0)
        ev = render_seq(r, case[1], 1, ctx, "class")
        return "\n".join(r.lines) + "\n", ev, "m.K", "class"
    if case[0] == "V":
        _, n, parent, allmode, how = case
        ind = 0
        if parent == "class":
            r.emit("class K:", 0)
            ind = 1
        if allmode == "listed":
            r.emit(f'__all__ = ["{n}"]', 0)
        elif allmode == "empty":
            r.emit("__all__ = []", 0)  # declared, and lists nothing: every object of the module is private
        elif allmode == "not-listed":
            r.emit('__all__ = ["other"]', 0)
        elif allmode == "spliced":
            r.emit(f'{n} = ["other"]', 0)
            r.emit(f'__all__ = ["more", *{n}]', 0)
        if how in ("import", "import-then-def"):
            r.emit(f"from m2 import {n}", ind)
        if how in ("def", "import-then-def"):
            r.emit(f"def {n}({'self' if parent == 'class' else ''}): ...", ind)
        if how == "assign" and allmode != "spliced":
            r.emit(f"{n} = 1", ind)
        return "\n".join(r.lines) + "\n", [], "m.K" if parent == "class" else "m", parent
    raise AssertionError(case)


# ---------------------------------------------------------------------------------------------------------------
# reference interpreter over events


def interpret(events):
    """-> members {name: binding dict | 'either'}, imports {name: path}, exports list|None"""
    members: dict = {}
    imports: dict = {}
    exports = None
    either: set = set()
    for e in events:
        if e["op"] == "noise":
            continue
        if e["op"] == "all":
            if e["aug"]:
                if exports is not None:
                    exports = exports + e["names"]
            else:
                # `__all__ = [...]` is also a module attribute assignment, subject to the same tie-break
                if "__all__" in members and e["cond"] in ("if", "except"):
                    continue
                exports = list(e["names"])
                prev_all = members.get("__all__")
                members["__all__"] = {"op": "bind", "name": "__all__", "kind": "attribute", "lineno": e["lineno"], "endlineno": e["lineno"], "guard": e["guard"], "labels": {"module-attribute"}, "doc": e.get("doc"), "is_all": True}
                if prev_all and not e.get("doc") and (prev_all.get("doc") or prev_all.get("doc_any")):
                    members["__all__"]["doc_any"] = True  # (the docstring of the assignment it replaces is forwarded, like for any other attribute: accepted)
            continue
        n = e["name"]
        if e.get("instance") and n in members and "property" in members[n].get("labels", ()):
            continue  # `self.x = ...` in __init__ goes through the property x of the class (its setter): the property is what the name binds
        if e["kind"] == "attribute" and not e.get("is_def") and n in members and e["cond"] in ("if", "except"):
            if members[n]["kind"] != "attribute":
                either.add(n)  # unspecified by the property
            continue
        if e["kind"] == "attribute" and not e.get("is_def") and n in members:
            prev = members[n]
            e = dict(e)
            # Griffe forwards the previous docstring / annotation when the new assignment has none
            if not e.get("doc") and (prev.get("doc") or prev.get("doc_any")):
                e["doc_any"] = True  # (also from a displaced class/function: unspecified by the property, accepted)
            if not e.get("annotation") and prev.get("annotation"):
                e["annotation"] = prev["annotation"]
            either.discard(n)
        elif n in members:
            either.discard(n)
        if e["kind"] == "alias":
            imports[n] = e["target"]
        members[n] = e
    return members, imports, exports, either


# ---------------------------------------------------------------------------------------------------------------
# event monitor


def make_recorder(griffe):
    class Rec(griffe.Extension):
        def __init__(self):
            self.log = []  # (event, object) -- strong references: displaced objects' ids must not be reused

        def on_instance(self, *, obj, **kw):
            self.log.append(("instance", obj))

        def on_module_instance(self, *, mod, **kw):
            self.log.append(("kind_instance", mod))

        def on_class_instance(self, *, cls, **kw):
            self.log.append(("kind_instance", cls))

        def on_function_instance(self, *, func, **kw):
            self.log.append(("kind_instance", func))

        def on_attribute_instance(self, *, attr, **kw):
            self.log.append(("kind_instance", attr))

        def on_members(self, *, obj, **kw):
            self.log.append(("members", obj))

        def on_module_members(self, *, mod, **kw):
            self.log.append(("kind_members", mod))

        def on_class_members(self, *, cls, **kw):
            self.log.append(("kind_members", cls))

        def on_alias(self, *, alias, **kw):
            self.log.append(("alias", alias))

    return Rec


def check_events(log, mod):
    """-> list of (rule, detail)"""
    bad = []
    idx: dict = {}
    for i, (ev, obj) in enumerate(log):
        idx.setdefault(id(obj), []).append((i, ev))

    def walk(o):
        yield o
        if not o.is_alias:
            for m in o.members.values():
                yield from walk(m)

    for o in walk(mod):
        evs = idx.get(id(o), [])
        names = [e for _, e in evs]
        if o.is_alias:
            if names.count("alias") != 1:
                bad.append(("alias-announced-once", f"{o.path}: on_alias fired {names.count('alias')} times"))
            continue
        if names.count("instance") != 1 or names.count("kind_instance") != 1:
            bad.append(("announced-once", f"{o.path}: on_instance x{names.count('instance')}, on_<kind>_instance x{names.count('kind_instance')}"))
            continue
        t_inst = next(i for i, e in evs if e == "instance")
        if o.parent is not None:
            pevs = idx.get(id(o.parent), [])
            pinst = [i for i, e in pevs if e == "instance"]
            if o.parent.kind.value in ("module", "class") and (not pinst or pinst[0] > t_inst):
                bad.append(("parent-first", f"{o.path} announced before its parent"))
            pmem = [i for i, e in pevs if e == "members"]
            if o.parent.kind.value in ("module", "class") and pmem and pmem[0] < t_inst:
                bad.append(("members-last", f"{o.parent.path}: on_members fired before member {o.name} was announced"))
        if o.kind.value in ("module", "class"):
            if names.count("members") != 1 or names.count("kind_members") != 1:
                bad.append(("members-once", f"{o.path}: on_members x{names.count('members')}, on_<kind>_members x{names.count('kind_members')}"))
    return bad


# ---------------------------------------------------------------------------------------------------------------


def _stmt_kind(case):
    def nm(s):
        if s[0] == "block":
            return s[1] + "[" + ",".join(nm(a[0]) for a in s[2]) + "]"
        if s[0] in ("def", "assign", "class"):
            return f"{s[0]}:{s[2]}"
        if s[0] == "import":
            return "import"
        if s[0] == "spelled":
            return "spelled:" + SPELLED[s[1]][0].split("\n")[0][:24].replace(" ", "_")
        return s[0]

    return "+".join(nm(s) for s in case[1])


def _abstract(case):
    """Statement kinds without names, for keys."""
    return _stmt_kind(case)


_env: dict = {}


def _setup():
    if _env:
        return _env
    boot.boot()
    import griffe

    _env.update(griffe=griffe, Rec=make_recorder(griffe))
    return _env


def judge_scope(acc, case, src, lines, obj, events, path, scope_kind, ctxkey):
    """Compare griffe object `obj` (module or class) with the interpretation of `events`."""
    members, imports, exports, either = interpret(events)
    header = {"functools", "typing", "some", "dataclasses", "abc", "TYPE_CHECKING", "ClassVar", "t", "TC"} if scope_kind == "module" and path == "m" else set()
    # z, y, Z are only bound by the "unsupported" statements (some of which Griffe does descend into): not judged
    got_names = [n for n in obj.members if n not in header and n not in ("z", "y", "Z")]
    exp_names = list(members)
    for n in set(got_names) ^ set(exp_names):
        what = "extra" if n in got_names else "missing"
        acc.violation(f"member/{what}/{ctxkey}", f"{path}.{n}: member {what} ({sorted(got_names)} vs expected {sorted(exp_names)})", {"case": case, "source": src}, None, size=len(src))
    for n, e in members.items():
        if n not in obj.members:
            continue
        m = obj.members[n]
        where = {"case": case, "source": src}
        kind = "alias" if m.is_alias else m.kind.value
        if n in either:
            continue
        if kind != e["kind"]:
            acc.violation(f"member/kind/{ctxkey}", f"{path}.{n} is a {kind}, the surviving binding is a {e['kind']}", where, None, size=len(src))
            continue
        if m.parent is not obj:
            acc.violation(f"member/parent/{ctxkey}", f"{path}.{n}: parent is {getattr(m.parent, 'path', None)}", where, None, size=len(src))
        if kind == "alias":
            if m.target_path != e["target"]:
                acc.violation("alias/target", f"{path}.{n}: target_path {m.target_path!r}, expected {e['target']!r}", where, None, size=len(src))
            if (m.alias_lineno, m.alias_endlineno) != (e["lineno"], e["endlineno"]):
                acc.violation("span/alias", f"{path}.{n}: alias lines {(m.alias_lineno, m.alias_endlineno)} vs {(e['lineno'], e['endlineno'])}", where, None, size=len(src))
            if m.runtime != (not e["guard"]):
                acc.violation(f"runtime/alias/{_guard_ctx(case)}", f"{path}.{n}: runtime={m.runtime}, written {'under' if e['guard'] else 'outside'} a TYPE_CHECKING guard", where, None, size=len(src))
            continue
        if (m.lineno, m.endlineno) != (e["lineno"], e["endlineno"]):
            acc.violation(f"span/{kind}/{'decorated' if e.get('src_first', e['lineno']) != e['lineno'] or 'deco' in str(case) else 'plain'}", f"{path}.{n}: lines {(m.lineno, m.endlineno)}, written at {(e['lineno'], e['endlineno'])}", where, None, size=len(src))
        else:
            want = textwrap.dedent("\n".join(lines[e["lineno"] - 1:e["endlineno"]]))
            if m.source != want:
                acc.violation(f"span/source-slice/{kind}", f"{path}.{n}: source slice differs from the definition", where, {"got": m.source, "expected": want}, size=len(src))
        if m.runtime != (not e["guard"]):
            acc.violation(f"runtime/{kind}/{_guard_ctx(case)}", f"{path}.{n}: runtime={m.runtime}, written {'under' if e['guard'] else 'outside'} a TYPE_CHECKING guard", where, None, size=len(src))
        want_labels = e["labels"]
        if kind in ("function", "class") or e.get("is_def"):
            deco_labels = {l for l in m.labels if l in {"cached", "staticmethod", "classmethod", "property", "async", "dataclass", "abstractmethod", "writable", "deletable"}}
            if deco_labels != {l for l in want_labels}:
                acc.violation(f"labels/{kind}", f"{path}.{n}: labels {sorted(m.labels)}, decorators imply {sorted(want_labels)}", where, None, size=len(src))
        elif not want_labels <= set(m.labels):
            acc.violation(f"labels/attribute/{scope_kind}", f"{path}.{n}: labels {sorted(m.labels)} lack {sorted(want_labels - set(m.labels))}", where, None, size=len(src))
        elif set(m.labels) & {"cached", "staticmethod", "classmethod", "property", "async", "dataclass", "abstractmethod", "writable", "deletable"}:
            acc.violation(f"labels/attribute-has-decorator-labels/{scope_kind}", f"{path}.{n} is a plain assignment but carries {sorted(m.labels)}", where, None, size=len(src))
        doc = e.get("doc")
        if doc:
            if m.docstring is None:
                acc.violation(f"docstring/missing/{kind}", f"{path}.{n}: docstring {doc[0]!r} not attached", where, None, size=len(src))
            else:
                if m.docstring.value != inspect.cleandoc(doc[0]):
                    acc.violation(f"docstring/text/{kind}", f"{path}.{n}: docstring {m.docstring.value!r} vs {doc[0]!r}", where, None, size=len(src))
                if (m.docstring.lineno, m.docstring.endlineno) != (doc[1], doc[2]):
                    acc.violation(f"docstring/span/{kind}", f"{path}.{n}: docstring lines {(m.docstring.lineno, m.docstring.endlineno)} vs {(doc[1], doc[2])}", where, None, size=len(src))
        elif m.docstring is not None and not e.get("doc_any"):
            acc.violation(f"docstring/spurious/{kind}", f"{path}.{n}: unexpected docstring {m.docstring.value!r}", where, None, size=len(src))
        if kind == "attribute" and not e.get("is_def") and not e.get("is_all"):
            if e.get("annotation") and str(m.annotation) != e["annotation"]:
                acc.violation("attribute/annotation", f"{path}.{n}: annotation {m.annotation!r} vs {e['annotation']!r}", where, None, size=len(src))
            if "value" in e and (None if m.value is None else str(m.value)) != e["value"]:
                acc.violation("attribute/value", f"{path}.{n}: value {m.value!r} vs {e['value']!r}", where, None, size=len(src))
        if kind == "class":
            judge_scope(acc, case, src, lines, m, e.get("body", []), f"{path}.{n}", "class", ctxkey + "/nested")
    # imports map / exports
    got_imports = {k: v for k, v in obj.imports.items() if k not in ("functools", "typing", "some", "dataclasses", "abc", "TYPE_CHECKING", "ClassVar", "t", "TC")} if scope_kind == "module" else dict(obj.imports)
    if got_imports != imports:
        acc.violation(f"imports/{scope_kind}", f"{path}.imports {got_imports} vs {imports}", {"case": case, "source": src}, None, size=len(src))
    if scope_kind == "module":
        got_exports = None if obj.exports is None else [str(x) for x in obj.exports]
        if got_exports != exports:
            acc.violation("exports", f"{path}.exports {got_exports} vs {exports}", {"case": case, "source": src}, None, size=len(src))


def _guard_ctx(case):
    kinds = sorted({s[1] for s in case[1] if s[0] == "block" and s[1].startswith(("tc", "typing"))} | {"in-class" for _ in [0] if case[0] == "C"})
    return "+".join(kinds) or "no-guard"


def run_case(env, acc, case):
    g = env["griffe"]
    src, events, path, scope_kind = build(case)
    lines = src.split("\n")
    rec = env["Rec"]()
    try:
        lc = g.LinesCollection()
        lc[Path("m.py")] = src.splitlines()
        mod = g.visit("m", filepath=Path("m.py"), code=src, extensions=g.load_extensions(rec), lines_collection=lc)
    except Exception as e:  # noqa: BLE001
        import traceback

        tb = traceback.extract_tb(e.__traceback__)
        acc.violation(f"raise/{type(e).__name__}@{tb[-1].name}", f"visit raised {e!r}", {"case": case, "source": src}, None, size=len(src))
        acc.case({"source": src}, outcome="raise")
        return
    if case[0] == "V":
        _, n, parent, allmode, how = case
        obj = mod.members["K"].members[n] if parent == "class" else mod.members[n]
        special = n.startswith("__") and n.endswith("__")
        private = n.startswith("_") and not special
        imported = how == "import"  # a name re-bound by a local def is defined here, not imported
        if parent == "module" and allmode != "none":
            want_public = allmode == "listed"
        else:
            want_public = (not private) and not imported
        checks = {
            "is_public": (obj.is_public, want_public), "is_private": (obj.is_private, private), "is_special": (obj.is_special, special),
            "is_class_private": (bool(obj.is_class_private), parent == "class" and n.startswith("__") and not n.endswith("__")),
            "is_imported": (bool(obj.is_imported), how in ("import",)), "is_exported": (bool(obj.is_exported), parent == "module" and allmode == "listed"),
        }
        for pred, (got, want) in checks.items():
            if bool(got) != bool(want):
                shape = "special" if special else "class-private" if n.startswith("__") else "private" if private else "plain"
                acc.violation(f"visibility/{pred}/{how}" + (f"/__all__-{allmode}" if pred in ("is_public", "is_exported") else ""), f"{obj.path}: {pred}={got}, decision table says {want}", {"case": case, "source": src}, None, size=len(src))
        acc.case({"source": src}, outcome="visibility", nontrivial=True)
        return
    scope = mod if scope_kind == "module" else mod.members["K"]
    ctxkey = _abstract(case) if len(case[1]) <= 1 else "/".join(sorted({s[0] if s[0] != "block" else s[1] for s in case[1]}))
    judge_scope(acc, case, src, lines, scope, events, path, scope_kind, ctxkey)
    for rule, detail in check_events(rec.log, mod):
        acc.violation(f"event/{rule}/{ctxkey}", detail, {"case": case, "source": src}, None, size=len(src))
    names = [e["name"] for e in events if e.get("op") == "bind"]
    nontrivial = len(names) != len(set(names)) or any(s[0] == "block" for s in case[1]) or case[0] == "C"
    acc.case({"source": src}, outcome=f"{case[0]}:{len(scope.members)}members", nontrivial=nontrivial)
    acc.observe(sorted((n, "alias" if m.is_alias else m.kind.value, m.runtime) for n, m in scope.members.items()))


RELOAD_VERSIONS = [
    "def f():\n    return 1\n\ndef g():\n    return 2\n",
    '"""Doc."""\n\n\ndef g():\n    return 22\n\nclass K:\n    def m(self):\n        return 3\n\ndef f():\n    return 11\n',
    "import os\n\ndef f():\n    return 111\n",
]


def _run_reloads(env, acc):
    """The same file loaded again by the SAME loader after it was edited (and by a second loader sharing the lines collection): spans and sources are those of the text that was analysed last."""
    import ast

    from mc.core import sandbox

    g = env["griffe"]
    for sharing in ("same-loader", "shared-lines-collection"):
        for order in ((0, 1), (1, 0), (0, 1, 2), (1, 2, 0)):
            with sandbox.scratch_dir("c01r") as d:
                path = os.path.join(d, "relo.py")
                lines = g.LinesCollection()
                loader = None
                for step, vi in enumerate(order):
                    text = RELOAD_VERSIONS[vi]
                    with open(path, "w") as f:
                        f.write(text)
                    if loader is None or (sharing == "shared-lines-collection" and step):
                        loader = g.GriffeLoader(search_paths=[d], allow_inspection=False, lines_collection=lines)
                    cd = {"family": "reload", "sharing": sharing, "versions": list(order[: step + 1])}
                    try:
                        mod = loader.load("relo")
                    except Exception as e:  # noqa: BLE001
                        acc.violation(f"reload/raise/{type(e).__name__}", f"load number {step + 1} raised {e!r}", cd, None, size=step)
                        break
                    want = {}
                    for node in ast.walk(ast.parse(text)):
                        if isinstance(node, (ast.FunctionDef, ast.ClassDef)):
                            want[node.name] = "\n".join(text.splitlines()[node.lineno - 1 : node.end_lineno])
                    bad = []
                    for name, src in want.items():
                        obj = mod.members.get(name) or mod.members["K"].members.get(name)
                        got = None if obj is None else obj.source
                        if got is None or [l.strip() for l in got.splitlines()] != [l.strip() for l in src.splitlines()]:
                            bad.append((name, got, src))
                    acc.case(cd, outcome="reload:" + ("ok" if not bad else "stale"), nontrivial=True)
                    acc.observe([b[0] for b in bad])
                    if bad:
                        acc.violation(f"reload/source/{sharing}/load-{min(step + 1, 2)}", f"after loading the edited file again, {bad[0][0]}.source is {bad[0][1]!r}, the file says {bad[0][2]!r}", cd, None, size=step)
                        break


SEPARATOR_CHARS = ["\x0c", "\x0b", "\x1c", "\x1d", "\x1e", "\x85", "\u2028", "\u2029"]
SEPARATOR_TEMPLATES = {
    # a line of its own between two definitions (a form feed is white space for the tokenizer: page breaks in old code bases)
    "own-line": "def f():\n    return 1\n{c}\ndef g():\n    \"\"\"Doc g.\"\"\"\n    return 2\n\n\nclass K:\n    x = 1\n\n    def m(self):\n        return 3\n",
    "in-comment": "def f():  # page{c}break\n    return 1\n\ndef g():\n    \"\"\"Doc g.\"\"\"\n    return 2\n\n\nclass K:\n    x = 1  # a{c}b\n\n    def m(self):\n        return 3\n",
    "in-string": "def f():\n    return 'a{c}b'\n\ndef g():\n    \"\"\"Doc g.\"\"\"\n    return 2\n\n\nclass K:\n    x = 'a{c}b'\n\n    def m(self):\n        return 3\n",
    "in-docstring": "def f():\n    return 1\n\ndef g():\n    \"\"\"Doc g.\n\n    page{c}break\n    \"\"\"\n    return 2\n\n\nclass K:\n    x = 1\n\n    def m(self):\n        return 3\n",
}


def _run_separators(env, acc):
    """Files that contain characters `str.splitlines` treats as line ends but the Python parser does not (form feed, vertical tab, FS/GS/RS, NEL, LS, PS),
    and files written with CRLF / CR line ends: every definition's span, sliced out of the source, is that very definition; docstrings are the ones CPython sees."""
    import ast

    from mc.core import sandbox

    g = env["griffe"]
    for tname, template in SEPARATOR_TEMPLATES.items():
        for c in SEPARATOR_CHARS + [""]:
            for nl in ("\n", "\r\n", "\r"):
                if c == "" and (nl == "\n" or tname != "own-line"):
                    continue
                raw = template.replace("{c}", c).replace("\n", nl)
                with sandbox.scratch_dir("c01s") as d:
                    path = os.path.join(d, "sepm.py")
                    with open(path, "w", encoding="utf8", newline="") as f:
                        f.write(raw)
                    with open(path, encoding="utf8") as f:
                        text = f.read()  # (universal newlines: what the import system compiles)
                    try:
                        tree = ast.parse(text)
                    except (SyntaxError, ValueError):
                        continue  # not a module CPython accepts
                    cd = {"family": "separators", "template": tname, "char": repr(c), "newline": repr(nl)}
                    try:
                        mod = g.GriffeLoader(search_paths=[d], allow_inspection=False).load("sepm")
                    except Exception as e:  # noqa: BLE001
                        acc.violation(f"separators/raise/{type(e).__name__}", f"load raised {e!r}", cd, None, size=1)
                        continue
                    tlines = text.split("\n")
                    bad = []
                    for node in ast.walk(tree):
                        if not isinstance(node, (ast.FunctionDef, ast.ClassDef)):
                            continue
                        obj = mod.members.get(node.name) or mod.members["K"].members.get(node.name)
                        want = textwrap.dedent("\n".join(tlines[node.lineno - 1 : node.end_lineno]))
                        got = None if obj is None else obj.source
                        if got != want:
                            bad.append(("source", node.name, got, want))
                        wdoc = ast.get_docstring(node)
                        gdoc = None if obj is None or obj.docstring is None else obj.docstring.value
                        if gdoc != wdoc:
                            bad.append(("docstring", node.name, gdoc, wdoc))
                    acc.case(cd, outcome="separators:" + ("ok" if not bad else bad[0][0]), nontrivial=True)
                    acc.observe([b[:2] for b in bad])
                    if bad:
                        what = "form-feed" if c == "\x0c" else "newline-style" if c == "" else "other-separator"
                        acc.violation(f"separators/{bad[0][0]}/{what}/{tname}", f"{bad[0][1]}.{bad[0][0]} is {bad[0][2]!r}, the file says {bad[0][3]!r}", cd, None, size=len(raw))


def run_shard(shard, tier):
    env = _setup()
    acc = Acc()
    if shard == 0:
        _run_reloads(env, acc)
    if shard == 1:
        _run_separators(env, acc)
    for idx, case in enumerate(all_cases(tier)):
        if idx % NSHARDS != shard:
            continue
        try:
            run_case(env, acc, case)
        except Exception as e:  # noqa: BLE001
            import traceback

            acc.violation(f"harness-error/{type(e).__name__}", repr(e), {"case": case}, {"tb": traceback.format_exc()[-900:]})
    return acc.result()


def _detuple(x):
    return tuple(_detuple(i) for i in x) if isinstance(x, list) else x


def replay(case):
    env = _setup()
    acc = Acc()
    if isinstance(case, dict) and case.get("family") in ("reload", "separators"):
        (_run_reloads if case["family"] == "reload" else _run_separators)(env, acc)
        return [(k, v["summary"], v["detail"]) for k, v in acc.violations.items()]
    run_case(env, acc, _detuple(case["case"]))
    return [(k, v["summary"], v["detail"]) for k, v in acc.violations.items()]
